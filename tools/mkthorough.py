import json,re,sys
out=open('/tmp/claude-0/-verif/bbb63d7b-38d8-4bfb-9b6e-02c2d5c24396/tasks/bob7gs1s2.output').read()
ok={}
for m in re.finditer(r'^(C\d\d) (probe\d+) exit=(\d+) (\d+)s',out,re.M):
    ok[(m.group(1),m.group(2))]=(int(m.group(3)),int(m.group(4)))
extra=json.load(open('/tmp/verif-dev/extra_ok.json')) if len(sys.argv)>1 else {}
cands=json.load(open('/tmp/verif-dev/probe_cands.json'))
p=json.load(open('/verif/props.json'))
keep_thor={'C05','C06','C10','C13','C17','C01','C07'}
for pid in p:
    if pid in keep_thor: continue
    quick=p[pid]['tiers']['quick']
    thor=[json.loads(json.dumps(h)) for h in quick]
    for (cid,t,spec) in cands:
        if cid!=pid: continue
        if isinstance(spec,str): spec=json.loads(spec)
        st=ok.get((cid,t))
        if extra.get(cid+' '+t) is not None: st=(extra[cid+' '+t],0)
        if st and st[0]==0:
            if not any(h['name']==spec['name'] and h.get('params')==spec.get('params') for h in thor):
                thor.append(spec)
    p[pid]['tiers']['thorough']=thor
    print(pid,len(quick),'->',len(thor))
json.dump(p,open('/verif/props.json','w'),indent=1)
