#!/bin/bash
cd /tmp/verif-dev; export VERIF_DIR=/tmp/verif-dev; mkdir -p logs
python3 -c "
import json
for pid,t,spec in json.load(open('probe_cands.json')): print(pid,t)" | while read pid t; do
  s=$(date +%s); timeout 420 ./bin/vcheck run $pid $t > logs/probe-$pid-$t.log 2>&1; echo "$pid $t exit=$? $(( $(date +%s)-s ))s"
done
