#!/bin/bash
# For every "fixed" entry of known_findings.json: revert that fix in a scratch worktree and
# run the property's quick check there; the check must report the violation again (exit 1).
# usage: fixed_regress.sh [property ...]
wt=${SEED_WT:-/tmp/wt-seedtry}
if [ ! -d $wt ]; then git -C /repo worktree add --detach $wt HEAD >/dev/null 2>&1 || exit 2; fi
python3 - "$@" <<'PY' > /tmp/fixed_list.txt
import json,sys
want=set(sys.argv[1:])
seen=set()
for k in json.load(open('/verif/known_findings.json')):
    if k.get('status')=='fixed' and (not want or k['property'] in want):
        key=(k['property'],k['commit'])
        if key in seen: continue
        seen.add(key); print(k['property'],k['commit'],k['label'].replace(' ','_'))
PY
while read prop commit label; do
  cd $wt && git checkout -q -- . && git checkout -q --detach $(git -C /repo rev-parse HEAD)
  if ! git show $commit | git apply -R 2>/dev/null; then echo "$prop $commit: fix does not revert cleanly on HEAD (later fixes touch the same lines) — skipped"; continue; fi
  cd /verif
  VERIF_REPO=$wt ./bin/vcheck run $prop quick > /verif/logs/regress-$prop-$commit.log 2>&1
  code=$?
  git -C $wt checkout -q -- .
  echo "$prop $commit ($label): exit=$code violations=$(grep -c '^VIOLATION' /verif/logs/regress-$prop-$commit.log)"
done < /tmp/fixed_list.txt
