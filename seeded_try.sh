#!/bin/bash
# usage: seeded_try.sh <seed-name> <property> [tier]   (runs the check against a scratch worktree with the seed applied)
# The scratch worktree is /tmp/wt-seedtry (created from /repo HEAD when missing, removed by the caller when done).
name=$1; prop=$2; tier=${3:-quick}
wt=${SEED_WT:-/tmp/wt-seedtry}
if [ ! -d $wt ]; then git -C /repo worktree add --detach $wt HEAD >/dev/null 2>&1 || exit 2; fi
cd $wt && git checkout -q -- . && git checkout -q --detach $(git -C /repo rev-parse HEAD) || exit 2
git apply /verif/seeded/$name/patch.diff || { echo "$name: patch does not apply"; exit 2; }
cd /verif
VERIF_REPO=$wt ./bin/vcheck run $prop $tier > /verif/logs/seedtry-$name-$prop-$tier.log 2>&1
code=$?
git -C $wt checkout -q -- .
echo "$name vs $prop $tier: exit=$code  $(grep -c '^VIOLATION' /verif/logs/seedtry-$name-$prop-$tier.log) violation lines"
grep -m3 "^VIOLATION\|^  harness\|^INCONCLUSIVE" /verif/logs/seedtry-$name-$prop-$tier.log | cut -c1-300
