#!/bin/bash
# usage: seeded_verify.sh <seed-name> <worktree> <pkgs-to-test...>
# Confirms a seeded change: builds, existing tests of the given packages pass
# with it, the demonstration fails with it and passes without it.
set -u
name=$1; wt=$2; shift 2
export GOFLAGS=-mod=mod GOPROXY=off GOSUMDB=off GOTOOLCHAIN=local
cd "$wt" || exit 2
demo=$(cat .seed/demo_path.txt)
git checkout -q -- . 2>/dev/null
rm -f "$demo"
git apply .seed/patch.diff || { echo "$name: patch does not apply"; exit 2; }
go build ./... || { echo "$name: build fails"; exit 2; }
if go test -vet=off -count=1 "$@" > /tmp/seedtest-$name.log 2>&1; then echo "$name: existing tests pass with change"; else echo "$name: EXISTING TESTS FAIL with change"; tail -5 /tmp/seedtest-$name.log; fi
cp .seed/zz_demo_test.go "$demo"
pkg=./$(dirname "$demo")
if go test -vet=off -count=1 -run 'Demo' "$pkg" > /tmp/seeddemo-$name-with.log 2>&1; then echo "$name: demo PASSES with change (bad)"; else echo "$name: demo fails with change (good)"; fi
git apply -R .seed/patch.diff
if go test -vet=off -count=1 -run 'Demo' "$pkg" > /tmp/seeddemo-$name-without.log 2>&1; then echo "$name: demo passes without change (good)"; else echo "$name: demo FAILS without change (bad)"; tail -5 /tmp/seeddemo-$name-without.log; fi
rm -f "$demo"
