#!/bin/bash
# usage: seeded_run_wt.sh <seed-dir-name> <property> <worktree> [tier]
# Like seeded_run.sh but runs the check against a scratch worktree (VERIF_REPO)
# that has the seeded patch applied, leaving /repo untouched.
name=$1; prop=$2; wt=$3; tier=${4:-quick}
cd "$wt" || exit 2
git checkout -q -- . ; git checkout -q --detach $(git -C /repo rev-parse HEAD); rm -f $(cat .seed/demo_path.txt 2>/dev/null)
git apply /verif/seeded/$name/patch.diff || exit 2
cd /verif
VERIF_REPO=$wt ./bin/vcheck run $prop $tier > /tmp/seedrun-$name-$prop-$tier.log 2>&1
code=$?
git -C "$wt" checkout -q -- .
echo "$name vs $prop $tier: exit=$code  $(grep -c '^VIOLATION' /tmp/seedrun-$name-$prop-$tier.log) violation lines"
grep -m3 "^VIOLATION\|^  harness\|^INCONCLUSIVE" /tmp/seedrun-$name-$prop-$tier.log | cut -c1-300
