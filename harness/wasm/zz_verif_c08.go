package wasm

import (
	"math/big"

	"github.com/shopspring/decimal"
	"github.com/streamingfast/substreams/metrics"
	pbsubstreams "github.com/streamingfast/substreams/pb/sf/substreams/v1"
	"github.com/streamingfast/substreams/storage/store"
	sym "github.com/streamingfast/substreams/zz_verifsym"
	"go.uber.org/zap"
)

// one host write function of the store interface: how a module calls it, and what
// it is documented to do on the store (the reference side of the comparison)
type c08Host struct {
	name      string
	policy    pbsubstreams.Module_KindStore_UpdatePolicy
	valueType string
	host      func(c *Call, ord uint64, key string, v int)
	direct    func(s store.Store, ord uint64, key string, v int)
}

var c08Ints = []int64{5, -3, 0}
var c08Floats = []float64{1.5, -2, 0}
var c08Decs = []string{"1.25", "-2.5", "0.00000000000000000000000000000000001"}
var c08Bytes = [][]byte{{1}, {2, 3}, {}}

func c08BigInt(v int) *big.Int { return big.NewInt(c08Ints[v]) }
func c08Dec(v int) decimal.Decimal {
	d, err := decimal.NewFromString(c08Decs[v])
	if err != nil {
		panic(err)
	}
	return d.Truncate(34)
}
func c08IntText(v int) string { return big.NewInt(c08Ints[v]).String() }
func c08Tagged(v int, t string) []byte {
	tag := "sum:"
	if v == 1 {
		tag = "set:"
	}
	return []byte(tag + t)
}

const (
	c08Set    = pbsubstreams.Module_KindStore_UPDATE_POLICY_SET
	c08Sine   = pbsubstreams.Module_KindStore_UPDATE_POLICY_SET_IF_NOT_EXISTS
	c08App    = pbsubstreams.Module_KindStore_UPDATE_POLICY_APPEND
	c08Add    = pbsubstreams.Module_KindStore_UPDATE_POLICY_ADD
	c08Min    = pbsubstreams.Module_KindStore_UPDATE_POLICY_MIN
	c08Max    = pbsubstreams.Module_KindStore_UPDATE_POLICY_MAX
	c08SetSum = pbsubstreams.Module_KindStore_UPDATE_POLICY_SET_SUM
)

var c08Hosts = []c08Host{
	{"set", c08Set, "string", func(c *Call, o uint64, k string, v int) { c.DoSet(o, k, c08Bytes[v]) }, func(s store.Store, o uint64, k string, v int) { s.SetBytes(o, k, c08Bytes[v]) }},
	{"set_if_not_exists", c08Sine, "string", func(c *Call, o uint64, k string, v int) { c.DoSetIfNotExists(o, k, c08Bytes[v]) }, func(s store.Store, o uint64, k string, v int) { s.SetBytesIfNotExists(o, k, c08Bytes[v]) }},
	{"append", c08App, "string", func(c *Call, o uint64, k string, v int) { c.DoAppend(o, k, c08Bytes[v]) }, func(s store.Store, o uint64, k string, v int) { s.Append(o, k, c08Bytes[v]) }},
	{"add_int64", c08Add, "int64", func(c *Call, o uint64, k string, v int) { c.DoAddInt64(o, k, c08Ints[v]) }, func(s store.Store, o uint64, k string, v int) { s.SumInt64(o, k, c08Ints[v]) }},
	{"add_bigint", c08Add, "bigint", func(c *Call, o uint64, k string, v int) { c.DoAddBigInt(o, k, c08IntText(v)) }, func(s store.Store, o uint64, k string, v int) { s.SumBigInt(o, k, c08BigInt(v)) }},
	{"add_float64", c08Add, "float64", func(c *Call, o uint64, k string, v int) { c.DoAddFloat64(o, k, c08Floats[v]) }, func(s store.Store, o uint64, k string, v int) { s.SumFloat64(o, k, c08Floats[v]) }},
	{"add_bigdecimal", c08Add, "bigdecimal", func(c *Call, o uint64, k string, v int) { c.DoAddBigDecimal(o, k, c08Decs[v]) }, func(s store.Store, o uint64, k string, v int) { s.SumBigDecimal(o, k, c08Dec(v)) }},
	{"set_min_int64", c08Min, "int64", func(c *Call, o uint64, k string, v int) { c.DoSetMinInt64(o, k, c08Ints[v]) }, func(s store.Store, o uint64, k string, v int) { s.SetMinInt64(o, k, c08Ints[v]) }},
	{"set_min_bigint", c08Min, "bigint", func(c *Call, o uint64, k string, v int) { c.DoSetMinBigInt(o, k, c08IntText(v)) }, func(s store.Store, o uint64, k string, v int) { s.SetMinBigInt(o, k, c08BigInt(v)) }},
	{"set_min_float64", c08Min, "float64", func(c *Call, o uint64, k string, v int) { c.DoSetMinFloat64(o, k, c08Floats[v]) }, func(s store.Store, o uint64, k string, v int) { s.SetMinFloat64(o, k, c08Floats[v]) }},
	{"set_min_bigdecimal", c08Min, "bigdecimal", func(c *Call, o uint64, k string, v int) { c.DoSetMinBigDecimal(o, k, c08Decs[v]) }, func(s store.Store, o uint64, k string, v int) { s.SetMinBigDecimal(o, k, c08Dec(v)) }},
	{"set_max_int64", c08Max, "int64", func(c *Call, o uint64, k string, v int) { c.DoSetMaxInt64(o, k, c08Ints[v]) }, func(s store.Store, o uint64, k string, v int) { s.SetMaxInt64(o, k, c08Ints[v]) }},
	{"set_max_bigint", c08Max, "bigint", func(c *Call, o uint64, k string, v int) { c.DoSetMaxBigInt(o, k, c08IntText(v)) }, func(s store.Store, o uint64, k string, v int) { s.SetMaxBigInt(o, k, c08BigInt(v)) }},
	{"set_max_float64", c08Max, "float64", func(c *Call, o uint64, k string, v int) { c.DoSetMaxFloat64(o, k, c08Floats[v]) }, func(s store.Store, o uint64, k string, v int) { s.SetMaxFloat64(o, k, c08Floats[v]) }},
	{"set_max_bigdecimal", c08Max, "bigdecimal", func(c *Call, o uint64, k string, v int) { c.DoSetMaxBigDecimal(o, k, c08Decs[v]) }, func(s store.Store, o uint64, k string, v int) { s.SetMaxBigDecimal(o, k, c08Dec(v)) }},
	{"set_sum_int64", c08SetSum, "int64", func(c *Call, o uint64, k string, v int) { c.DoSetSumInt64(o, k, string(c08Tagged(v, c08IntText(v)))) }, func(s store.Store, o uint64, k string, v int) { s.SetSumInt64(o, k, c08Tagged(v, c08IntText(v))) }},
	{"set_sum_bigint", c08SetSum, "bigint", func(c *Call, o uint64, k string, v int) { c.DoSetSumBigInt(o, k, string(c08Tagged(v, c08IntText(v)))) }, func(s store.Store, o uint64, k string, v int) { s.SetSumBigInt(o, k, c08Tagged(v, c08IntText(v))) }},
	{"set_sum_float64", c08SetSum, "float64", func(c *Call, o uint64, k string, v int) { c.DoSetSumFloat64(o, k, string(c08Tagged(v, "1.5"))) }, func(s store.Store, o uint64, k string, v int) { s.SetSumFloat64(o, k, c08Tagged(v, "1.5")) }},
	{"set_sum_bigdecimal", c08SetSum, "bigdecimal", func(c *Call, o uint64, k string, v int) { c.DoSetSumBigDecimal(o, k, string(c08Tagged(v, c08Decs[v]))) }, func(s store.Store, o uint64, k string, v int) { s.SetSumBigDecimal(o, k, c08Tagged(v, c08Decs[v])) }},
}

var c08Keys = []string{"a", "ab", "b"}

// VerifC08HostCalls: what a module does through the host interface (wasm.Call.Do*)
// reaches the store as the corresponding store operation with the same ordinal, key and
// value, and the host read functions answer from the store they name with the ordinal and
// key they were given — for each of the 19 write functions, delete_prefix and the 6 reads.
func VerifC08HostCalls() {
	h := c08Hosts[sym.Choice("host-function", sym.Param("HOSTS", len(c08Hosts)))]
	logger := zap.NewNop()
	cfg, err := store.NewConfig("s", 0, "h", h.policy, h.valueType, sym.NewMemStore())
	if err != nil {
		sym.Unreachable("config-ok")
		return
	}
	viaHost, direct := cfg.NewFullKV(logger), cfg.NewFullKV(logger)
	other := cfg.NewFullKV(logger) // a second input store: reads must not be answered from it
	stats := metrics.NewReqStats(&metrics.Config{}, logger)
	call := NewCall(&pbsubstreams.Clock{Number: 1, Id: "b"}, "m", "e", stats, []Argument{
		NewStoreWriterOutput("s", viaHost, h.policy, h.valueType),
		NewStoreReaderInput("other", other, 0),
		NewStoreReaderInput("s", viaHost, 0),
	})
	n := 1 + sym.Choice("nops", sym.Param("OPS", 2))
	for i := 0; i < n; i++ {
		ord := sym.U64("ord")
		if sym.Choice("delete", 3) == 2 {
			prefix := []string{"a", "ab", ""}[sym.Choice("prefix", 3)]
			call.DoDeletePrefix(ord, prefix)
			direct.DeletePrefix(ord, prefix)
			continue
		}
		key := c08Keys[sym.Choice("key", len(c08Keys))]
		v := sym.Choice("value", 3)
		h.host(call, ord, key, v)
		h.direct(direct, ord, key, v)
	}
	if viaHost.Flush() != nil || direct.Flush() != nil {
		sym.Reach("flush-rejected")
		return
	}
	da, db := viaHost.GetDeltas(), direct.GetDeltas()
	sym.Assert(len(da) == len(db), "host-calls-same-delta-count")
	if len(da) == len(db) {
		for i := range da {
			sym.Assert(da[i].Operation == db[i].Operation && da[i].Ordinal == db[i].Ordinal && da[i].Key == db[i].Key, "host-calls-same-delta")
			sym.Assert(sym.EqBytes(da[i].NewValue, db[i].NewValue), "host-calls-same-delta-value")
		}
	}
	// reads through the host interface, store index 1 = the output store's reader
	qk := c08Keys[sym.Choice("query-key", len(c08Keys))]
	qo := sym.U64("query-ord")
	gv, gf := call.DoGetAt(1, qo, qk)
	wv, wf := direct.GetAt(qo, qk)
	sym.Assert(gf == wf && sym.EqBytes(gv, wv), "host-get-at")
	sym.Assert(call.DoHasAt(1, qo, qk) == direct.HasAt(qo, qk), "host-has-at")
	gv, gf = call.DoGetFirst(1, qk)
	wv, wf = direct.GetFirst(qk)
	sym.Assert(gf == wf && sym.EqBytes(gv, wv), "host-get-first")
	sym.Assert(call.DoHasFirst(1, qk) == direct.HasFirst(qk), "host-has-first")
	gv, gf = call.DoGetLast(1, qk)
	wv, wf = direct.GetLast(qk)
	sym.Assert(gf == wf && sym.EqBytes(gv, wv), "host-get-last")
	sym.Assert(call.DoHasLast(1, qk) == direct.HasLast(qk), "host-has-last")
	_, of := call.DoGetLast(0, qk)
	sym.Assert(!of, "reads-answered-from-the-named-store")
	sym.Reach("compared")
}
