package sqe

import (
	"context"

	"github.com/RoaringBitmap/roaring/roaring64"
	lex "github.com/alecthomas/participle/lexer"
	pbindex "github.com/streamingfast/substreams/pb/sf/substreams/index/v1"
	sym "github.com/streamingfast/substreams/zz_verifsym"
)

// token types of the harness lexer (the regexp lexer that turns characters
// into these tokens is outside the check)
var c15Symbols = map[rune]string{
	1: "Name", 2: "Quoting", 3: "NotOperator", 4: "OrOperator", 5: "AndOperator",
	6: "LeftParenthesis", 7: "RightParenthesis", 8: "Space",
}

type c15Lexer struct {
	toks []lex.Token
	i    int
}

func (l *c15Lexer) Next() (lex.Token, error) {
	if l.i >= len(l.toks) {
		return lex.EOFToken(lex.Position{}), nil
	}
	t := l.toks[l.i]
	l.i++
	return t, nil
}

// c15Tokens draws a symbolic token stream: types range over the 8 token kinds,
// key values over {a, b, c}.
func c15Tokens(n int) []lex.Token {
	var out []lex.Token
	for i := 0; i < n; i++ {
		ty := sym.I32("token-type")
		sym.Assume(ty >= 1)
		sym.Assume(ty <= 8)
		v := sym.StrN("token-value", 1)
		sym.Assume(v[0] >= 'a')
		sym.Assume(v[0] <= 'c')
		out = append(out, lex.Token{Type: rune(ty), Value: v, Pos: lex.Position{Offset: i, Line: 1, Column: i + 1}})
	}
	return out
}

// VerifC15Filter: for every token stream the real parser accepts, evaluating
// the expression against pre-computed bitmaps selects exactly the blocks on
// which evaluating it against the block's own keys is true.
func VerifC15Filter() {
	n := 1 + sym.Choice("tokens", sym.Param("TOKENS", 4))
	pl, err := lex.Upgrade(&c15Lexer{toks: c15Tokens(n)})
	if err != nil {
		sym.Unreachable("upgrade-ok")
		return
	}
	p := &Parser{ctx: context.Background(), l: &lexer{PeekingLexer: pl, symbols: c15Symbols}}
	expr, err := p.Parse(context.Background())
	if err != nil {
		sym.Reach("rejected")
		return
	}
	if expr == nil {
		sym.Unreachable("accepted-expression-non-nil")
		return
	}
	sym.Reach("accepted")

	// index content: per key the bitmap of blocks (segment of 8 blocks) on which it was emitted
	bitsA, bitsB := sym.Byte("bits-a"), sym.Byte("bits-b")
	bitmaps := map[string]*roaring64.Bitmap{"a": sym.BitmapFromBits(bitsA), "b": sym.BitmapFromBits(bitsB)}
	blk := sym.U64("block")
	sym.Assume(blk < 8)

	pre := RoaringBitmapsApply(expr, bitmaps)
	selected := pre.Contains(blk)

	// the block's own keys
	var keys []string
	if bitmaps["a"].Contains(blk) {
		keys = append(keys, "a")
	}
	if bitmaps["b"].Contains(blk) {
		keys = append(keys, "b")
	}
	matches := KeysApply(expr, NewFromIndexKeys(&pbindex.Keys{Keys: keys}))
	sym.Assert(selected == matches, "bitmap-evaluation-equals-keys-evaluation")

	// evaluation does not disturb the shared index bitmaps, and is repeatable
	sym.Assert(sym.BitmapBits(bitmaps["a"]) == bitsA, "index-bitmap-a-unchanged")
	sym.Assert(sym.BitmapBits(bitmaps["b"]) == bitsB, "index-bitmap-b-unchanged")
	again := RoaringBitmapsApply(expr, bitmaps)
	sym.Assert(sym.BitmapBits(again) == sym.BitmapBits(pre), "second-evaluation-same-set")
}

// VerifC15Not: a negation in operand position is always a parse error.
func VerifC15Not() {
	n := 1 + sym.Choice("tokens", sym.Param("TOKENS", 4))
	toks := c15Tokens(n)
	pl, _ := lex.Upgrade(&c15Lexer{toks: toks})
	p := &Parser{ctx: context.Background(), l: &lexer{PeekingLexer: pl, symbols: c15Symbols}}
	expr, err := p.Parse(context.Background())
	if err != nil {
		return
	}
	sym.Reach("accepted")
	// an accepted stream contains no NotOperator token outside quoted strings
	quoted := false
	for _, t := range toks {
		if t.Type == 2 {
			quoted = !quoted
		}
		if !quoted {
			sym.Assert(t.Type != 3, "no-negation-in-accepted-expression")
		}
	}
	_ = expr
}
