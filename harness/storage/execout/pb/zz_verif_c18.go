package pboutputcache

import (
	sym "github.com/streamingfast/substreams/zz_verifsym"
	"google.golang.org/protobuf/types/known/timestamppb"
)

func c18Item(i int) *Item {
	it := &Item{}
	small := (i > 0 && sym.Param("SMALLREST", 0) == 1) || sym.Param("SMALLALL", 0) == 1
	if small {
		// Only the first item (or none, SMALLALL) ranges over all 64-bit numbers: the others take
		// numbers from a small concrete set around a varint length boundary. (Two symbolic
		// numbers, even below 128, made every query take seconds — about 800 shared sub-terms
		// over two 64-bit variables — and a run take hours; these configurations are about the
		// relations between items: equal numbers, order, count.)
		it.BlockNum = []uint64{1, 127, 128}[sym.Choice("block-num-small", 3)]
	} else {
		it.BlockNum = sym.U64("block-num")
	}
	if sym.Param("FIXEDIDS", 0) == 1 {
		// configuration about the relations between items: distinct concrete ids, so map
		// lookups and the decoder's key handling stay concrete and only numbers are symbolic
		it.BlockId = string(rune('a' + i))
	} else {
		it.BlockId = sym.Str("block-id", sym.Param("IDLEN", 2))
	}
	it.Payload = sym.Bytes("payload", sym.Param("PAYLEN", 2))
	it.Cursor = sym.Str("cursor", sym.Param("CURLEN", 1))
	if !small && sym.Choice("has-timestamp", 2) == 1 {
		it.Timestamp = &timestamppb.Timestamp{Seconds: sym.I64("seconds"), Nanos: sym.I32("nanos")}
	}
	return it
}

func c18SameItem(a, b *Item, label string) {
	sym.Assert(a.BlockNum == b.BlockNum, label+"-block-num")
	sym.Assert(sym.EqStr(a.BlockId, b.BlockId), label+"-block-id")
	sym.Assert(sym.EqBytes(a.Payload, b.Payload), label+"-payload")
	sym.Assert(sym.EqStr(a.Cursor, b.Cursor), label+"-cursor")
	sym.Assert((a.Timestamp == nil) == (b.Timestamp == nil), label+"-timestamp-presence")
	if a.Timestamp != nil && b.Timestamp != nil {
		sym.Assert(a.Timestamp.Seconds == b.Timestamp.Seconds, label+"-seconds")
		sym.Assert(a.Timestamp.Nanos == b.Timestamp.Nanos, label+"-nanos")
	}
}

// VerifC18Output: cached-output files. The bytes written by MarshalFast are
// read back by UnmarshalFast and by the generated UnmarshalVT to the same
// content, and the fast decoder reads what the generated encoder writes.
func VerifC18Output() {
	n := sym.Choice("items", sym.Param("ITEMS", 2)+1)
	m := &Map{Kv: map[string]*Item{}}
	var items []*Item
	for i := 0; i < n; i++ {
		it := c18Item(i)
		for _, prev := range items {
			sym.Assume(!sym.EqStr(prev.BlockId, it.BlockId)) // map keys are distinct block ids
		}
		items = append(items, it)
		m.Kv[it.BlockId] = it
	}

	data, err := m.MarshalFast()
	if err != nil {
		sym.Unreachable("marshal-fast-ok")
		return
	}

	// fast encoder -> fast decoder
	back := &Map{}
	if err := back.UnmarshalFast(data); err != nil {
		sym.Unreachable("unmarshal-fast-ok")
		return
	}
	sym.Assert(len(back.Kv) == n, "fast-roundtrip-count")
	for _, it := range items {
		got, ok := back.Kv[it.BlockId]
		sym.Assert(ok, "fast-roundtrip-has-item")
		if ok {
			c18SameItem(it, got, "fast-roundtrip")
		}
	}

	// fast encoder -> generated (standard) decoder
	std := &Array{}
	if err := std.UnmarshalVT(data); err != nil {
		sym.Unreachable("standard-decoder-accepts-fast-bytes")
		return
	}
	sym.Assert(len(std.Items) == n, "standard-decoder-count")
	if len(std.Items) == n {
		for _, got := range std.Items {
			for _, it := range items {
				if sym.EqStr(it.BlockId, got.BlockId) {
					c18SameItem(it, got, "fast-bytes-standard-decoder")
				}
			}
		}
	}

	// generated (standard) encoder -> fast decoder
	arr := &Array{Items: items}
	data2, err := arr.MarshalVT()
	if err != nil {
		sym.Unreachable("standard-encoder-ok")
		return
	}
	fast := &Array{}
	if err := fast.UnmarshalVTNoAlloc(data2); err != nil {
		sym.Unreachable("fast-decoder-accepts-standard-bytes")
		return
	}
	sym.Assert(len(fast.Items) == n, "fast-decoder-count")
	if len(fast.Items) == n {
		for i, it := range items {
			c18SameItem(it, fast.Items[i], "standard-bytes-fast-decoder")
		}
	}
	sym.Reach("done")
}
