package store

import (
	"math/big"
	"strconv"

	"github.com/shopspring/decimal"

	pbsubstreams "github.com/streamingfast/substreams/pb/sf/substreams/v1"
	sym "github.com/streamingfast/substreams/zz_verifsym"
	"go.uber.org/zap"
)

// keys are prefix-related on purpose
var vKeys = []string{"a", "ab", "b"}

// prefixes used by delete_prefix: "a" hits a and ab, "ab" hits ab, "b" hits b, "" hits all
var vPrefixes = []string{"a", "ab", "b", ""}

const (
	vPolSet = iota
	vPolSetIfNotExists
	vPolAppend
	vPolAddInt64
	vPolMinInt64
	vPolMaxInt64
	vPolSetSumInt64
	vPolAddBigInt
	vPolMinBigInt
	vPolMaxBigInt
	vPolSetSumBigInt
	vPolAddFloat64
	vPolMinFloat64
	vPolMaxFloat64
	vPolSetSumFloat64
	vPolAddBigDecimal
	vPolMinBigDecimal
	vPolMaxBigDecimal
	vPolSetSumBigDecimal
	vPolCount
)

// bigdecimal (and its legacy alias bigfloat, BIGFLOAT=1) policies are explored
// over a small concrete value set like the float64 ones: the decimal library is
// executed natively on concrete operands. The third value has more than the 34
// decimal places the host interface truncates add/min/max operands to.
var vDecimals = []string{"1", "-2.5", "0.00000000000000000000000000000000001", "0", "10.25", "0.1"}

// index of the value with more than 34 decimal places, and whether this run fed it
// to a set_sum store (whose host call does not truncate its operand)
const vDecimalBeyond34 = 2

var vBeyond34 bool

func vIsDecimal(p int) bool { return p >= vPolAddBigDecimal && p <= vPolSetSumBigDecimal }

func vDec(i int) decimal.Decimal {
	d, err := decimal.NewFromString(vDecimals[i])
	if err != nil {
		panic(err)
	}
	return d
}

func vDecimalType() string {
	if sym.Param("BIGFLOAT", 0) == 1 {
		return "bigfloat"
	}
	return "bigdecimal"
}

// float64 policies are explored over a small concrete value set (text
// conversion of symbolic floats is not encodable); ordinals stay symbolic.
var vFloats = []float64{1, 1e16, -2.5, 0, 3}

func vIsFloat(p int) bool { return p >= vPolAddFloat64 && p <= vPolSetSumFloat64 }

func vFloatText(f float64) string { return strconv.FormatFloat(f, 'g', 100, 64) }

func vPolicy(p int) (pbsubstreams.Module_KindStore_UpdatePolicy, string) {
	switch p {
	case vPolSet:
		return pbsubstreams.Module_KindStore_UPDATE_POLICY_SET, "string"
	case vPolSetIfNotExists:
		return pbsubstreams.Module_KindStore_UPDATE_POLICY_SET_IF_NOT_EXISTS, "string"
	case vPolAppend:
		return pbsubstreams.Module_KindStore_UPDATE_POLICY_APPEND, "string"
	case vPolAddInt64:
		return pbsubstreams.Module_KindStore_UPDATE_POLICY_ADD, "int64"
	case vPolMinInt64:
		return pbsubstreams.Module_KindStore_UPDATE_POLICY_MIN, "int64"
	case vPolMaxInt64:
		return pbsubstreams.Module_KindStore_UPDATE_POLICY_MAX, "int64"
	case vPolSetSumInt64:
		return pbsubstreams.Module_KindStore_UPDATE_POLICY_SET_SUM, "int64"
	case vPolAddBigInt:
		return pbsubstreams.Module_KindStore_UPDATE_POLICY_ADD, "bigint"
	case vPolMinBigInt:
		return pbsubstreams.Module_KindStore_UPDATE_POLICY_MIN, "bigint"
	case vPolMaxBigInt:
		return pbsubstreams.Module_KindStore_UPDATE_POLICY_MAX, "bigint"
	case vPolSetSumBigInt:
		return pbsubstreams.Module_KindStore_UPDATE_POLICY_SET_SUM, "bigint"
	case vPolAddFloat64:
		return pbsubstreams.Module_KindStore_UPDATE_POLICY_ADD, "float64"
	case vPolMinFloat64:
		return pbsubstreams.Module_KindStore_UPDATE_POLICY_MIN, "float64"
	case vPolMaxFloat64:
		return pbsubstreams.Module_KindStore_UPDATE_POLICY_MAX, "float64"
	case vPolSetSumFloat64:
		return pbsubstreams.Module_KindStore_UPDATE_POLICY_SET_SUM, "float64"
	case vPolAddBigDecimal:
		return pbsubstreams.Module_KindStore_UPDATE_POLICY_ADD, vDecimalType()
	case vPolMinBigDecimal:
		return pbsubstreams.Module_KindStore_UPDATE_POLICY_MIN, vDecimalType()
	case vPolMaxBigDecimal:
		return pbsubstreams.Module_KindStore_UPDATE_POLICY_MAX, vDecimalType()
	case vPolSetSumBigDecimal:
		return pbsubstreams.Module_KindStore_UPDATE_POLICY_SET_SUM, vDecimalType()
	}
	panic("bad policy")
}

func vIsNumeric(p int) bool { return p >= vPolAddInt64 }
func vIsSetSum(p int) bool {
	return p == vPolSetSumInt64 || p == vPolSetSumBigInt || p == vPolSetSumFloat64 || p == vPolSetSumBigDecimal
}

func vConfig(p int) *Config {
	pol, vt := vPolicy(p)
	return &Config{name: "s", moduleHash: "h", updatePolicy: pol, valueType: vt,
		appendLimit: 8_388_608, totalSizeLimit: 1_073_741_824, itemSizeLimit: 10_485_760}
}

// vOp is one store operation of the harness.
type vOp struct {
	del    bool    // delete_prefix
	key    int     // index in vKeys / vPrefixes
	ord    uint64  // arbitrary ordinal
	val    []byte  // bytes policies
	num    int64   // numeric policies
	fnum   float64 // float64 policies
	dnum   int     // bigdecimal policies: index in vDecimals
	setTag bool    // set_sum: "set:" (true) or "sum:" (false)
}

var (
	vSharedOrd    uint64
	vSharedOrdSet bool
)

// vSymOp draws a symbolic operation for policy p.
func vSymOp(p int, allowDelete bool, valLen int) vOp {
	var o vOp
	if sym.Param("SAMEORD", 0) == 1 {
		// every operation of the run carries the same (arbitrary) ordinal: the regime
		// where only the stable order of recording decides, without sort forks
		if !vSharedOrdSet {
			vSharedOrd, vSharedOrdSet = sym.U64("ord"), true
		}
		o.ord = vSharedOrd
	} else {
		o.ord = sym.U64("ord")
	}
	if allowDelete && sym.Choice("delete", 2) == 1 {
		o.del = true
		o.key = sym.Choice("prefix", len(vPrefixes))
		return o
	}
	o.key = sym.Choice("key", len(vKeys))
	if vIsDecimal(p) {
		o.dnum = sym.Choice("decimal", sym.Param("DECIMALS", 5))
		if vIsSetSum(p) {
			vBeyond34 = vBeyond34 || o.dnum == vDecimalBeyond34
			o.setTag = sym.Choice("settag", 2) == 1
		}
	} else if vIsFloat(p) {
		o.fnum = vFloats[sym.Choice("float", sym.Param("FLOATS", len(vFloats)))]
		if vIsSetSum(p) {
			o.setTag = sym.Choice("settag", 2) == 1
		}
	} else if vIsNumeric(p) {
		o.num = vSymNum("num")
		if vIsSetSum(p) {
			o.setTag = sym.Choice("settag", 2) == 1
		}
	} else {
		o.val = vSymVal("val", valLen)
	}
	return o
}

// vRecord records the operation on a store through the real recorder API.
func vRecord(s Store, p int, o vOp) {
	if o.del {
		s.DeletePrefix(o.ord, vPrefixes[o.key])
		return
	}
	k := vKeys[o.key]
	switch p {
	case vPolSet:
		s.SetBytes(o.ord, k, o.val)
	case vPolSetIfNotExists:
		s.SetBytesIfNotExists(o.ord, k, o.val)
	case vPolAppend:
		s.Append(o.ord, k, o.val)
	case vPolAddInt64:
		s.SumInt64(o.ord, k, o.num)
	case vPolMinInt64:
		s.SetMinInt64(o.ord, k, o.num)
	case vPolMaxInt64:
		s.SetMaxInt64(o.ord, k, o.num)
	case vPolSetSumInt64:
		s.SetSumInt64(o.ord, k, vSetSumText(o))
	case vPolAddBigInt:
		s.SumBigInt(o.ord, k, vBig(o.num))
	case vPolMinBigInt:
		s.SetMinBigInt(o.ord, k, vBig(o.num))
	case vPolMaxBigInt:
		s.SetMaxBigInt(o.ord, k, vBig(o.num))
	case vPolSetSumBigInt:
		s.SetSumBigInt(o.ord, k, vSetSumText(o))
	case vPolAddFloat64:
		s.SumFloat64(o.ord, k, o.fnum)
	case vPolMinFloat64:
		s.SetMinFloat64(o.ord, k, o.fnum)
	case vPolMaxFloat64:
		s.SetMaxFloat64(o.ord, k, o.fnum)
	case vPolSetSumFloat64:
		tag := "sum:"
		if o.setTag {
			tag = "set:"
		}
		s.SetSumFloat64(o.ord, k, []byte(tag+vFloatText(o.fnum)))
	// as wasm.Call.DoAddBigDecimal / DoSetMin / DoSetMax: operands truncated to 34 places
	case vPolAddBigDecimal:
		s.SumBigDecimal(o.ord, k, vDec(o.dnum).Truncate(34))
	case vPolMinBigDecimal:
		s.SetMinBigDecimal(o.ord, k, vDec(o.dnum).Truncate(34))
	case vPolMaxBigDecimal:
		s.SetMaxBigDecimal(o.ord, k, vDec(o.dnum).Truncate(34))
	case vPolSetSumBigDecimal: // as DoSetSumBigDecimal: the tagged text is passed as is
		tag := "sum:"
		if o.setTag {
			tag = "set:"
		}
		s.SetSumBigDecimal(o.ord, k, []byte(tag+vDecimals[o.dnum]))
	}
}

func vSetSumText(o vOp) []byte {
	if o.setTag {
		return []byte("set:" + strconv.FormatInt(o.num, 10))
	}
	return []byte("sum:" + strconv.FormatInt(o.num, 10))
}

// vState is the reference model of a store: per key presence and typed value.
type vState struct {
	present [3]bool
	val     [3][]byte          // bytes policies
	num     [3]int64           // numeric policies
	fnum    [3]float64         // float64 policies
	dnum    [3]decimal.Decimal // bigdecimal policies
	isSet   [3]bool            // set_sum: tag of the stored value
}

func (st vState) clone() vState {
	c := st
	for i := range st.val {
		c.val[i] = append([]byte(nil), st.val[i]...)
	}
	return c
}

func vHasPrefix(key, prefix string) bool {
	return len(key) >= len(prefix) && key[:len(prefix)] == prefix
}

// apply is the specification of one operation on a full store.
func (st *vState) apply(p int, o vOp) {
	if o.del {
		for i, k := range vKeys {
			if vHasPrefix(k, vPrefixes[o.key]) {
				st.present[i] = false
				st.val[i] = nil
				st.num[i] = 0
				st.fnum[i] = 0
				st.dnum[i] = decimal.Decimal{}
				st.isSet[i] = false
			}
		}
		return
	}
	i := o.key
	switch p {
	case vPolSet:
		st.present[i], st.val[i] = true, append([]byte(nil), o.val...)
	case vPolSetIfNotExists:
		if !st.present[i] {
			st.present[i], st.val[i] = true, append([]byte(nil), o.val...)
		}
	case vPolAppend:
		if st.present[i] {
			st.val[i] = append(append([]byte(nil), st.val[i]...), o.val...)
		} else {
			st.present[i], st.val[i] = true, append([]byte(nil), o.val...)
		}
	case vPolAddInt64, vPolAddBigInt:
		if st.present[i] {
			st.num[i] += o.num
		} else {
			st.present[i], st.num[i] = true, o.num
		}
	case vPolMinInt64, vPolMinBigInt:
		if st.present[i] {
			st.num[i] = min(st.num[i], o.num)
		} else {
			st.present[i], st.num[i] = true, o.num
		}
	case vPolMaxInt64, vPolMaxBigInt:
		if st.present[i] {
			st.num[i] = max(st.num[i], o.num)
		} else {
			st.present[i], st.num[i] = true, o.num
		}
	case vPolSetSumInt64, vPolSetSumBigInt:
		switch {
		case !st.present[i]:
			st.present[i], st.num[i], st.isSet[i] = true, o.num, o.setTag
		case o.setTag:
			st.num[i], st.isSet[i] = o.num, true
		default:
			st.num[i] += o.num // keeps the previous tag
		}
	case vPolAddFloat64:
		if st.present[i] {
			st.fnum[i] += o.fnum
		} else {
			st.present[i], st.fnum[i] = true, o.fnum
		}
	case vPolMinFloat64:
		if st.present[i] {
			st.fnum[i] = min(st.fnum[i], o.fnum)
		} else {
			st.present[i], st.fnum[i] = true, o.fnum
		}
	case vPolMaxFloat64:
		if st.present[i] {
			st.fnum[i] = max(st.fnum[i], o.fnum)
		} else {
			st.present[i], st.fnum[i] = true, o.fnum
		}
	case vPolSetSumFloat64:
		switch {
		case !st.present[i]:
			st.present[i], st.fnum[i], st.isSet[i] = true, o.fnum, o.setTag
		case o.setTag:
			st.fnum[i], st.isSet[i] = o.fnum, true
		default:
			st.fnum[i] += o.fnum
		}
	case vPolAddBigDecimal:
		d := vDec(o.dnum).Truncate(34)
		if st.present[i] {
			st.dnum[i] = st.dnum[i].Add(d)
		} else {
			st.present[i], st.dnum[i] = true, d
		}
	case vPolMinBigDecimal:
		d := vDec(o.dnum).Truncate(34)
		if !st.present[i] || d.Cmp(st.dnum[i]) < 0 {
			st.present[i], st.dnum[i] = true, d
		}
	case vPolMaxBigDecimal:
		d := vDec(o.dnum).Truncate(34)
		if !st.present[i] || d.Cmp(st.dnum[i]) > 0 {
			st.present[i], st.dnum[i] = true, d
		}
	case vPolSetSumBigDecimal:
		d := vDec(o.dnum)
		switch {
		case !st.present[i]:
			st.present[i], st.dnum[i], st.isSet[i] = true, d, o.setTag
		case o.setTag:
			st.dnum[i], st.isSet[i] = d, true
		default:
			st.dnum[i] = st.dnum[i].Add(d)
		}
	}
}

// vSortStable returns ops in stable ordinal order (insertion sort).
func vSortStable(ops []vOp) []vOp {
	out := append([]vOp(nil), ops...)
	for i := 1; i < len(out); i++ {
		for j := i; j > 0 && out[j].ord < out[j-1].ord; j-- {
			out[j], out[j-1] = out[j-1], out[j]
		}
	}
	return out
}

// vSymPre draws a symbolic pre-state and installs it in the store with a consistent size.
func vSymPre(b *baseStore, p int, valLen int) vState {
	var st vState
	for i, k := range vKeys {
		if sym.Param("PRE", 1) == 0 {
			break // empty pre-state
		}
		if sym.Choice("pre-present", 2) == 0 {
			continue
		}
		st.present[i] = true
		var stored []byte
		if vIsDecimal(p) {
			di := sym.Choice("pre-decimal", sym.Param("DECIMALS", 5))
			st.dnum[i] = vDec(di)
			if vIsSetSum(p) {
				vBeyond34 = vBeyond34 || di == vDecimalBeyond34
			} else {
				// add/min/max stores only ever hold operands truncated by the host interface
				st.dnum[i] = st.dnum[i].Truncate(34)
			}
			txt := st.dnum[i].String()
			if vIsSetSum(p) {
				st.isSet[i] = sym.Choice("pre-settag", 2) == 1
				if st.isSet[i] {
					txt = "set:" + txt
				} else {
					txt = "sum:" + txt
				}
			}
			stored = []byte(txt)
		} else if vIsFloat(p) {
			st.fnum[i] = vFloats[sym.Choice("pre-float", sym.Param("FLOATS", len(vFloats)))]
			txt := vFloatText(st.fnum[i])
			if vIsSetSum(p) {
				st.isSet[i] = sym.Choice("pre-settag", 2) == 1
				if st.isSet[i] {
					txt = "set:" + txt
				} else {
					txt = "sum:" + txt
				}
			}
			stored = []byte(txt)
		} else if vIsNumeric(p) {
			st.num[i] = vSymNum("pre-num")
			txt := strconv.FormatInt(st.num[i], 10)
			if vIsSetSum(p) {
				st.isSet[i] = sym.Choice("pre-settag", 2) == 1
				if st.isSet[i] {
					txt = "set:" + txt
				} else {
					txt = "sum:" + txt
				}
			}
			stored = []byte(txt)
		} else {
			st.val[i] = vSymVal("pre-val", valLen)
			stored = append([]byte(nil), st.val[i]...)
		}
		b.kv[k] = stored
		b.totalSizeBytes += uint64(len(k) + len(stored))
	}
	return st
}

// vCheckRead compares a (value, found) answer of the real store with the model entry i.
func vCheckRead(p int, st *vState, i int, got []byte, found bool, label string) {
	sym.Assert(found == st.present[i], label+"-found")
	if !found || !st.present[i] {
		return
	}
	if vIsDecimal(p) {
		d, err := decimal.NewFromString(string(got))
		sym.Assert(err == nil, label+"-parses")
		if err == nil {
			sym.Assert(d.Cmp(st.dnum[i]) == 0, label+"-decimal")
		}
	} else if vIsFloat(p) {
		f, err := strconv.ParseFloat(string(got), 64)
		sym.Assert(err == nil, label+"-parses")
		if err == nil {
			sym.Assert(f == st.fnum[i], label+"-float")
		}
	} else if vIsNumeric(p) {
		n, err := strconv.ParseInt(string(got), 10, 64)
		sym.Assert(err == nil, label+"-parses")
		if err == nil {
			sym.Assert(n == st.num[i], label+"-num")
		}
	} else {
		sym.Assert(sym.EqBytes(got, st.val[i]), label+"-val")
	}
}

func vKeyIndex(k string) int {
	for i, x := range vKeys {
		if x == k {
			return i
		}
	}
	return -1
}

func vNop() *zap.Logger { return zap.NewNop() }

func parseI64(b []byte) (int64, error) { return strconv.ParseInt(string(b), 10, 64) }

func vBig(n int64) *big.Int { return new(big.Int).SetInt64(n) }

// vSymVal draws a value: VALLEN>0 means every length 0..VALLEN, VALLEN<0 means exactly -VALLEN bytes.
func vSymVal(name string, valLen int) []byte {
	if valLen < 0 {
		return sym.BytesN(name, -valLen)
	}
	return sym.Bytes(name, valLen)
}

// vSymNum draws a number in [NUMMIN, NUMLIM] (NUMMIN defaults to -NUMLIM).
func vSymNum(name string) int64 {
	n := sym.I64(name)
	lim := int64(sym.Param("NUMLIM", 9))
	lo := int64(sym.Param("NUMMIN", -int(lim)))
	sym.Assume(n >= lo)
	sym.Assume(n <= lim)
	return n
}
