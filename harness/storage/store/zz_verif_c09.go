package store

import (
	"sort"

	pbsubstreams "github.com/streamingfast/substreams/pb/sf/substreams/v1"
	sym "github.com/streamingfast/substreams/zz_verifsym"
)

func vCopyPre(dst, src *baseStore) {
	for _, k := range vKeys {
		if v, ok := src.kv[k]; ok {
			dst.kv[k] = append([]byte(nil), v...)
		}
	}
	dst.totalSizeBytes = src.totalSizeBytes
}

func vSameDeltas(a, b []*pbsubstreams.StoreDelta) {
	sym.Assert(len(a) == len(b), "replay-same-delta-count")
	if len(a) != len(b) {
		return
	}
	for i := range a {
		sym.Assert(a[i].Operation == b[i].Operation, "replay-delta-operation")
		sym.Assert(a[i].Ordinal == b[i].Ordinal, "replay-delta-ordinal")
		sym.Assert(a[i].Key == b[i].Key, "replay-delta-key")
		sym.Assert(sym.EqBytes(a[i].OldValue, b[i].OldValue), "replay-delta-old")
		sym.Assert(sym.EqBytes(a[i].NewValue, b[i].NewValue), "replay-delta-new")
	}
}

func vSameContent(a, b *baseStore, label string) {
	sym.Assert(len(a.kv) == len(b.kv), label+"-entry-count")
	for _, k := range vKeys {
		va, oka := a.kv[k]
		vb, okb := b.kv[k]
		sym.Assert(oka == okb, label+"-presence")
		if oka && okb {
			sym.Assert(sym.EqBytes(va, vb), label+"-value")
		}
	}
	sym.Assert(a.SizeBytes() == b.SizeBytes(), label+"-size")
}

func vSortedStrings(in []string) []string {
	out := append([]string(nil), in...)
	sort.Strings(out)
	return out
}

// VerifC09Replay: applying the recorded operation log of a block to a store in
// the same pre-block state reproduces the deltas and the post-block content.
func VerifC09Replay() {
	p := sym.Param("POLICY", vPolSet)
	blocks := sym.Param("BLOCKS", 1)
	maxOps := sym.Param("OPS", 2)
	valLen := sym.Param("VALLEN", -1)
	partial := sym.Param("PARTIAL", 0) == 1
	cfg := vConfig(p)

	var a, b Store
	var ab, bb *baseStore
	var pa, pb *PartialKV
	if partial {
		pa, pb = cfg.NewPartialKV(100, vNop()), cfg.NewPartialKV(100, vNop())
		a, b, ab, bb = pa, pb, pa.baseStore, pb.baseStore
	} else {
		fa, fb := cfg.NewFullKV(vNop()), cfg.NewFullKV(vNop())
		a, b, ab, bb = fa, fb, fa.baseStore, fb.baseStore
	}
	vSymPre(ab, p, valLen)
	vCopyPre(bb, ab)

	for blk := 0; blk < blocks; blk++ {
		n := 1 + sym.Choice("nops", maxOps)
		for i := 0; i < n; i++ {
			vRecord(a, p, vSymOp(p, true, valLen))
		}
		// order of calls of StoreModuleExecutor.wrapDeltasAndOps / applyCachedOutput
		if err := a.Flush(); err != nil {
			sym.Unreachable("flush-ok")
			return
		}
		deltas := a.GetDeltas()
		log := a.ReadOps()
		if err := b.ApplyOps(log); err != nil {
			sym.Unreachable("apply-ops-ok")
			return
		}
		sym.Reach("replayed")
		vSameDeltas(deltas, b.GetDeltas())
		vSameContent(ab, bb, "replay-content")
		if partial {
			da, db := vSortedStrings(pa.DeletedPrefixes), vSortedStrings(pb.DeletedPrefixes)
			sym.Assert(len(da) == len(db), "replay-deleted-prefixes-count")
			if len(da) == len(db) {
				for i := range da {
					sym.Assert(da[i] == db[i], "replay-deleted-prefixes")
				}
			}
		}
		a.Reset()
		b.Reset()
	}
}
