package store

import (
	"context"

	"github.com/streamingfast/substreams/block"
	sym "github.com/streamingfast/substreams/zz_verifsym"
)

type c10Entry struct {
	k string
	v []byte
}

// c10Fill installs symbolic binary keys and values (empty values included).
func c10Fill(b *baseStore) []c10Entry {
	n := sym.Choice("entries", sym.Param("ENTRIES", 2)+1)
	var es []c10Entry
	for i := 0; i < n; i++ {
		k := sym.StrN("key", 1+sym.Choice("keylen", sym.Param("KEYLEN", 2)))
		sym.Assume(k[0] != 0xFF) // reserved by the store
		v := sym.Bytes("value", sym.Param("VALLEN", 2))
		for _, p := range es {
			sym.Assume(!sym.EqStr(p.k, k))
		}
		es = append(es, c10Entry{k, v})
		b.kv[k] = v
		b.totalSizeBytes += uint64(len(k) + len(v))
	}
	return es
}

func c10Same(es []c10Entry, b *baseStore, label string) {
	sym.Assert(len(b.kv) == len(es), label+"-entry-count")
	size := uint64(0)
	for _, e := range es {
		v, ok := b.kv[e.k]
		sym.Assert(ok, label+"-has-key")
		if ok {
			sym.Assert(sym.EqBytes(v, e.v), label+"-value")
		}
		size += uint64(len(e.k) + len(e.v))
	}
	sym.Assert(b.SizeBytes() == size, label+"-size")
}

// c10Mutate changes a store after its snapshot was taken: a new key, an existing key
// overwritten or everything deleted, through the real write path.
func c10Mutate(s Store, b *baseStore) {
	switch sym.Choice("mutation", 3) {
	case 0:
		s.SetBytes(1, "zz-new", []byte{9})
	case 1:
		for k := range b.kv {
			s.SetBytes(1, k, []byte{7, 7, 7})
		}
	default:
		s.DeletePrefix(1, "")
	}
	if err := s.Flush(); err != nil {
		sym.Unreachable("mutation-flush-ok")
	}
	s.Reset()
}

// VerifC10RoundTrip: saving a full or partial store and loading it back gives
// the same keys, values, deleted-prefix list and size.
func VerifC10RoundTrip() {
	cfg := vConfig(vPolSet)
	mem := sym.NewMemStore()
	cfg.objStore = mem
	ctx := context.Background()
	if sym.Param("FAULTS", 0) == 1 {
		// the object store fails the first write attempts after having read the content
		// (transient fault): the snapshot writer retries, the round trip must be unaffected
		mem.FailNextWrites(sym.Choice("failed-writes", 3))
	}
	if sym.Choice("partial", 2) == 0 {
		s := cfg.NewFullKV(vNop())
		es := c10Fill(s.baseStore)
		file, w, err := s.Save(300)
		if err != nil {
			sym.Unreachable("save-ok")
			return
		}
		if sym.Param("MUTATE", 0) == 1 {
			// the snapshot is written asynchronously while the store moves on to the next
			// segment: what is saved is the content at Save time
			c10Mutate(s, s.baseStore)
		}
		if err := w.Write(ctx); err != nil {
			sym.Unreachable("write-ok")
			return
		}
		sym.Assert(!file.Partial, "full-file-kind")
		sym.Assert(file.Range.StartBlock == cfg.moduleInitialBlock && file.Range.ExclusiveEndBlock == 300, "full-file-range")
		s2 := cfg.NewFullKV(vNop())
		if err := s2.Load(ctx, file); err != nil {
			sym.Unreachable("load-ok")
			return
		}
		c10Same(es, s2.baseStore, "full-roundtrip")
		sym.Reach("full")
		return
	}
	p := cfg.NewPartialKV(100, vNop())
	es := c10Fill(p.baseStore)
	np := sym.Choice("prefixes", sym.Param("PREFIXES", 2)+1)
	var prefixes []string
	for i := 0; i < np; i++ {
		x := sym.Str("prefix", 1)
		prefixes = append(prefixes, x)
	}
	p.DeletedPrefixes = prefixes
	file, w, err := p.Save(200)
	if err != nil {
		sym.Unreachable("partial-save-ok")
		return
	}
	if sym.Param("MUTATE", 0) == 1 {
		c10Mutate(p, p.baseStore)
		p.DeletedPrefixes = append(p.DeletedPrefixes, "zz")
	}
	if err := w.Write(ctx); err != nil {
		sym.Unreachable("partial-write-ok")
		return
	}
	sym.Assert(file.Partial, "partial-file-kind")
	sym.Assert(file.Range.StartBlock == 100 && file.Range.ExclusiveEndBlock == 200, "partial-file-range")
	p2 := cfg.NewPartialKV(100, vNop())
	if err := p2.Load(ctx, file); err != nil {
		sym.Unreachable("partial-load-ok")
		return
	}
	c10Same(es, p2.baseStore, "partial-roundtrip")
	sym.Assert(len(p2.DeletedPrefixes) == len(prefixes), "partial-roundtrip-prefix-count")
	if len(p2.DeletedPrefixes) == len(prefixes) {
		for i := range prefixes {
			sym.Assert(sym.EqStr(p2.DeletedPrefixes[i], prefixes[i]), "partial-roundtrip-prefix")
		}
	}
	sym.Reach("partial")
}

type c10Cand struct {
	start, end uint64
	partial    bool
}

// VerifC10Listing: names built by the real FullStateFileName/PartialFileName
// parse back to their range and kind, and ListSnapshotFiles(below) returns
// every present snapshot that ends at or below `below`.
func VerifC10Listing() {
	cands := []c10Cand{
		{0, 10, false}, {0, 20, false}, {0, 30, false}, {0, 1000000000, false},
		{10, 20, true}, {20, 30, true}, {5, 10, true}, {30, 4000000000, true},
	}
	cfg := vConfig(vPolSet)
	mem := sym.NewMemStore()
	cfg.objStore = mem
	var present []bool
	for _, c := range cands {
		r := block.NewRange(c.start, c.end)
		name := FullStateFileName(r)
		if c.partial {
			name = PartialFileName(r)
		}
		// the name encodes range and kind
		fi, ok := parseFileName("s", name)
		sym.Assert(ok, "name-parses")
		if ok {
			sym.Assert(fi.Range.StartBlock == c.start && fi.Range.ExclusiveEndBlock == c.end, "name-encodes-range")
			sym.Assert(fi.Partial == c.partial, "name-encodes-kind")
			sym.Assert(!fi.WithTraceID, "name-without-trace-id")
		}
		here := sym.Choice("present", 2) == 1
		present = append(present, here)
		if here {
			mem.Put(name, []byte{1})
		}
	}
	if sym.Choice("noise", 2) == 1 {
		mem.Put("something-else.txt", []byte{1})
	}
	below := sym.U64("below")
	files, err := cfg.ListSnapshotFiles(context.Background(), below)
	if err != nil {
		sym.Unreachable("listing-ok")
		return
	}
	for i, c := range cands {
		found := 0
		for _, f := range files {
			if f.Range.StartBlock == c.start && f.Range.ExclusiveEndBlock == c.end && f.Partial == c.partial {
				found++
			}
		}
		sym.Assert(found <= 1, "listing-no-duplicates")
		if !present[i] {
			sym.Assert(found == 0, "listing-invents-nothing")
			continue
		}
		if c.end <= below {
			sym.Assert(found == 1, "listing-returns-every-snapshot-ending-at-or-below")
		}
		if c.start >= below {
			sym.Assert(found == 0, "listing-returns-nothing-starting-at-or-above")
		}
	}
	sym.Reach("listed")
}
