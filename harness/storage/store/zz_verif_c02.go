package store

import (
	"context"
	"strconv"

	"github.com/shopspring/decimal"

	sym "github.com/streamingfast/substreams/zz_verifsym"
)

// VerifC02Squash: merging, in block order, the partial stores computed
// independently for consecutive segments (each saved to and reloaded from its
// snapshot file) gives the same keys and typed values as applying all the
// operations block by block to one store.
func VerifC02Squash() {
	p := sym.Param("POLICY", vPolSet)
	vBeyond34 = false
	segments := sym.Param("SEGMENTS", 1)
	blocks := sym.Param("BLOCKS", 1)
	maxOps := sym.Param("OPS", 2)
	valLen := sym.Param("VALLEN", -1)
	cfg := vConfig(p)
	mem := sym.NewMemStore()
	cfg.objStore = mem

	seq := cfg.NewFullKV(vNop())    // sequential execution
	squash := cfg.NewFullKV(vNop()) // full store + merged partials
	vSymPre(seq.baseStore, p, valLen)
	vCopyPre(squash.baseStore, seq.baseStore)

	for seg := 0; seg < segments; seg++ {
		start := uint64(100 * (seg + 1))
		part := cfg.NewPartialKV(start, vNop())
		for blk := 0; blk < blocks; blk++ {
			n := 1 + sym.Choice("nops", maxOps)
			for i := 0; i < n; i++ {
				o := vSymOp(p, true, valLen)
				vRecord(seq, p, o)
				vRecord(part, p, o)
			}
			if err := seq.Flush(); err != nil {
				sym.Unreachable("sequential-flush-ok")
				return
			}
			seq.Reset()
			if err := part.Flush(); err != nil {
				sym.Unreachable("partial-flush-ok")
				return
			}
			part.Reset()
		}
		// snapshot round trip of the partial
		file, w, err := part.Save(start + 100)
		if err != nil {
			sym.Unreachable("partial-save-ok")
			return
		}
		if err := w.Write(context.Background()); err != nil {
			sym.Unreachable("partial-write-ok")
			return
		}
		loaded := cfg.NewPartialKV(start, vNop())
		if err := loaded.Load(context.Background(), file); err != nil {
			sym.Unreachable("partial-load-ok")
			return
		}
		if err := squash.Merge(loaded); err != nil {
			sym.Unreachable("merge-ok")
			return
		}
		sym.Reach("merged")
	}

	sym.Assert(seq.Length() == squash.Length(), "squash-same-key-count")
	for i, k := range vKeys {
		va, fa := seq.GetLast(k)
		vb, fb := squash.GetLast(k)
		sym.Assert(fa == fb, "squash-same-keys")
		if !fa || !fb {
			continue
		}
		if vIsDecimal(p) {
			da, ea := decimal.NewFromString(string(va))
			db, eb := decimal.NewFromString(string(vb))
			sym.Assert(ea == nil && eb == nil, "decimal-values-parse")
			if ea == nil && eb == nil {
				if vBeyond34 {
					// set_sum bigdecimal operand with more than 34 decimal places: own label (known finding)
					sym.Assert(da.Cmp(db) == 0, "squash-same-decimal-setsum-beyond-34-places")
				} else {
					sym.Assert(da.Cmp(db) == 0, "squash-same-decimal")
				}
			}
		} else if vIsFloat(p) {
			fa2, ea := strconv.ParseFloat(string(va), 64)
			fb2, eb := strconv.ParseFloat(string(vb), 64)
			sym.Assert(ea == nil && eb == nil, "float-values-parse")
			if ea == nil && eb == nil {
				if p == vPolAddFloat64 || p == vPolSetSumFloat64 {
					sym.Assert(fa2 == fb2, "squash-same-float-sum")
				} else {
					sym.Assert(fa2 == fb2, "squash-same-float-minmax")
				}
			}
		} else if vIsNumeric(p) {
			na, ea := parseI64(va)
			nb, eb := parseI64(vb)
			sym.Assert(ea == nil, "sequential-value-parses")
			sym.Assert(eb == nil, "squashed-value-parses")
			if ea == nil && eb == nil {
				sym.Assert(na == nb, "squash-same-number")
			}
		} else {
			sym.Assert(sym.EqBytes(va, vb), "squash-same-bytes")
		}
		_ = i
	}
	sym.Reach("compared")
}
