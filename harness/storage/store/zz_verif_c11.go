package store

import (
	"context"

	pbsubstreams "github.com/streamingfast/substreams/pb/sf/substreams/v1"
	sym "github.com/streamingfast/substreams/zz_verifsym"
)

// vRealSize recounts the content of a store.
func vRealSize(b *baseStore) (size uint64, entries int) {
	for _, k := range vKeys {
		if v, ok := b.kv[k]; ok {
			size += uint64(len(k) + len(v))
			entries++
		}
	}
	return
}

func vCheckSize(b *baseStore, label string) {
	size, n := vRealSize(b)
	sym.Assert(len(b.kv) == n, label+"-only-known-keys")
	sym.Assert(b.SizeBytes() == size, label)
}

// VerifC11Size: after every write block, reversal, re-application, merge of a
// partial store and save/load cycle the reported size equals the total
// length of keys and values; "too big" is reported exactly when the real
// content exceeds the limit.
func VerifC11Size() {
	p := sym.Param("POLICY", vPolSet)
	nEvents := sym.Param("EVENTS", 2)
	maxOps := sym.Param("OPS", 2)
	valLen := sym.Param("VALLEN", 2)
	cfg := vConfig(p)
	limits := []uint64{1 << 30, 4, 6}
	cfg.totalSizeLimit = limits[sym.Choice("limit", sym.Param("LIMITS", 1))]
	mem := sym.NewMemStore()
	cfg.objStore = mem
	s := cfg.NewFullKV(vNop())
	vSymPre(s.baseStore, p, valLen)
	vCheckSize(s.baseStore, "size-pre")
	// every applied delta is checked against the limit, so a store never holds more than it
	if preSize, _ := vRealSize(s.baseStore); preSize > cfg.totalSizeLimit {
		sym.Assume(false)
	}

	var lastOps []vOp                         // operations of the last executed block
	var lastDeltas []*pbsubstreams.StoreDelta // its deltas, while it can be undone
	block := func(ops []vOp) bool {
		for _, o := range ops {
			vRecord(s, p, o)
		}
		err := s.Flush()
		size, _ := vRealSize(s.baseStore)
		if err != nil {
			sym.Reach("too-big")
			sym.Assert(size > cfg.totalSizeLimit, "too-big-only-when-really-too-big")
			return false
		}
		sym.Assert(size <= cfg.totalSizeLimit, "not-late")
		lastOps = ops
		lastDeltas = s.GetDeltas()
		s.Reset()
		return true
	}
	// One event (or undo/redo chain) from an arbitrary consistent pre-state: the
	// size invariant is inductive, so a single step covers histories of any length.
	_ = nEvents
	symBlock := func() []vOp {
		n := 1 + sym.Choice("nops", maxOps)
		ops := make([]vOp, n)
		for i := range ops {
			ops[i] = vSymOp(p, true, valLen)
		}
		return ops
	}
	switch sym.Choice("scenario", 5) {
	case 4: // a partial store built from a block (writes and delete_prefix), saved and loaded back
		part := cfg.NewPartialKV(100, vNop())
		for _, o := range symBlock() {
			vRecord(part, p, o)
		}
		if err := part.Flush(); err != nil {
			return
		}
		part.Reset()
		file, w, err := part.Save(200)
		if err != nil {
			sym.Unreachable("partial-save-ok")
			return
		}
		if err := w.Write(context.Background()); err != nil {
			sym.Unreachable("partial-write-ok")
			return
		}
		back := cfg.NewPartialKV(100, vNop())
		if err := back.Load(context.Background(), file); err != nil {
			sym.Unreachable("partial-load-ok")
			return
		}
		sym.Reach("partial-save-load")
		vCheckSize(back.baseStore, "size-of-loaded-partial")
		sym.Assert(len(back.DeletedPrefixes) == len(part.DeletedPrefixes), "loaded-partial-same-prefix-count")
	case 0: // a block of operations
		if !block(symBlock()) {
			return
		}
		sym.Reach("block")
		vCheckSize(s.baseStore, "size-after-block")
	case 1: // block, undo (, re-apply, undo again)
		if !block(symBlock()) {
			return
		}
		vCheckSize(s.baseStore, "size-after-block")
		s.ApplyDeltasReverse(lastDeltas)
		sym.Reach("undo")
		vCheckSize(s.baseStore, "size-after-undo")
		if sym.Choice("again", 2) == 1 {
			if !block(lastOps) {
				return
			}
			sym.Reach("redo")
			vCheckSize(s.baseStore, "size-after-reapply")
			s.ApplyDeltasReverse(lastDeltas)
			vCheckSize(s.baseStore, "size-after-second-undo")
		}
	case 2: // merge a partial store built from a block of operations
		part := cfg.NewPartialKV(100, vNop())
		for _, o := range symBlock() {
			vRecord(part, p, o)
		}
		if err := part.Flush(); err != nil {
			// the segment's own content went over the limit
			psize, _ := vRealSize(part.baseStore)
			sym.Assert(psize > cfg.totalSizeLimit, "partial-too-big-only-when-really-too-big")
			sym.Reach("partial-too-big")
			return
		}
		part.Reset()
		vCheckSize(part.baseStore, "size-of-partial")
		if err := s.Merge(part); err != nil {
			sym.Unreachable("merge-ok")
			return
		}
		sym.Reach("merge")
		vCheckSize(s.baseStore, "size-after-merge")
	case 3: // save and load
		_, w, err := s.Save(200)
		if err != nil {
			sym.Unreachable("save-ok")
			return
		}
		if err := w.Write(context.Background()); err != nil {
			sym.Unreachable("write-ok")
			return
		}
		s2 := cfg.NewFullKV(vNop())
		if err := s2.Load(context.Background(), NewCompleteFileInfo(cfg.name, cfg.moduleInitialBlock, 200)); err != nil {
			sym.Unreachable("load-ok")
			return
		}
		sym.Reach("save-load")
		vCheckSize(s2.baseStore, "size-after-load")
		sym.Assert(len(s2.kv) == len(s.kv), "load-same-entry-count")
	}
}
