package store

import (
	"github.com/shopspring/decimal"
	"strconv"

	pbsubstreams "github.com/streamingfast/substreams/pb/sf/substreams/v1"
	sym "github.com/streamingfast/substreams/zz_verifsym"
)

// VerifC08Reads: within a block the operations take effect in stable ordinal
// order; get_first/get_last/get_at/has_* and the deltas match a reference model.
func VerifC08Reads() {
	p := sym.Param("POLICY", vPolSet)
	k := sym.Param("OPS", 2)
	valLen := sym.Param("VALLEN", 1)
	cfg := vConfig(p)
	s := cfg.NewFullKV(vNop())
	pre := vSymPre(s.baseStore, p, valLen)

	ops := make([]vOp, k)
	for i := range ops {
		ops[i] = vSymOp(p, true, valLen)
		vRecord(s, p, ops[i])
	}
	err := s.Flush()
	sym.Assert(err == nil, "flush-ok")
	if err != nil {
		return
	}

	// reference model: stable ordinal order, state after each op
	sorted := vSortStable(ops)
	states := make([]vState, k+1)
	states[0] = pre.clone()
	cur := pre.clone()
	for i, o := range sorted {
		cur.apply(p, o)
		states[i+1] = cur.clone()
	}
	final := states[k]

	sym.Reach("flushed")
	q := sym.U64("query-ord")
	n := 0
	for i, o := range sorted {
		if o.ord <= q {
			n = i + 1
		}
	}
	for qk, key := range vKeys {
		got, found := s.GetFirst(key)
		vCheckRead(p, &pre, qk, got, found, "get-first")
		sym.Assert(s.HasFirst(key) == found, "has-first")

		got, found = s.GetLast(key)
		vCheckRead(p, &final, qk, got, found, "get-last")
		sym.Assert(s.HasLast(key) == found, "has-last")

		got, found = s.GetAt(q, key)
		vCheckRead(p, &states[n], qk, got, found, "get-at")
		sym.Assert(s.HasAt(q, key) == found, "has-at")
	}

	// deltas: applied in order to the pre-state they give the post-state, and
	// each old value is the value just before it
	m := pre.clone()
	lastOrd := uint64(0)
	for _, d := range s.GetDeltas() {
		i := vKeyIndex(d.Key)
		if i < 0 {
			sym.Unreachable("delta-key-known")
			return
		}
		sym.Assert(d.Ordinal >= lastOrd, "delta-ordinals-non-decreasing")
		lastOrd = d.Ordinal
		switch d.Operation {
		case pbsubstreams.StoreDelta_CREATE:
			sym.Assert(!m.present[i], "delta-create-on-absent")
			m.present[i] = true
			vSetFromStored(p, &m, i, d.NewValue)
		case pbsubstreams.StoreDelta_UPDATE:
			sym.Assert(m.present[i], "delta-update-on-present")
			vCheckStored(p, &m, i, d.OldValue, "delta-old")
			vSetFromStored(p, &m, i, d.NewValue)
		case pbsubstreams.StoreDelta_DELETE:
			sym.Assert(m.present[i], "delta-delete-on-present")
			vCheckStored(p, &m, i, d.OldValue, "delta-old")
			m.present[i] = false
		default:
			sym.Unreachable("delta-operation-known")
		}
	}
	for i, key := range vKeys {
		sym.Assert(m.present[i] == final.present[i], "deltas-give-post-state-presence")
		v, ok := s.kv[key]
		sym.Assert(ok == final.present[i], "kv-presence")
		if ok && final.present[i] && m.present[i] {
			vCheckStored(p, &final, i, v, "kv-value")
			vCheckStored(p, &m, i, v, "deltas-give-post-state-value")
		}
	}
	sym.Reach("done")
}

// vStoredPayload strips the set_sum tag of a stored value.
func vStoredPayload(p int, stored []byte) (payload []byte, isSet bool, ok bool) {
	if !vIsSetSum(p) {
		return stored, false, true
	}
	if len(stored) < 4 {
		return nil, false, false
	}
	switch string(stored[:4]) {
	case "set:":
		return stored[4:], true, true
	case "sum:":
		return stored[4:], false, true
	}
	return nil, false, false
}

// vCheckStored compares raw stored bytes with the model entry.
func vCheckStored(p int, st *vState, i int, stored []byte, label string) {
	payload, isSet, ok := vStoredPayload(p, stored)
	sym.Assert(ok, label+"-tagged")
	if !ok {
		return
	}
	if vIsSetSum(p) {
		sym.Assert(isSet == st.isSet[i], label+"-tag")
	}
	vCheckRead(p, st, i, payload, true, label)
}

// vSetFromStored loads raw stored bytes into the model entry (used to replay deltas).
func vSetFromStored(p int, st *vState, i int, stored []byte) {
	payload, isSet, ok := vStoredPayload(p, stored)
	if !ok {
		sym.Unreachable("stored-value-tagged")
		return
	}
	if vIsDecimal(p) {
		d, err := decimal.NewFromString(string(payload))
		sym.Assert(err == nil, "stored-value-parses")
		st.dnum[i], st.isSet[i] = d, isSet
	} else if vIsFloat(p) {
		f, err := strconv.ParseFloat(string(payload), 64)
		sym.Assert(err == nil, "stored-value-parses")
		st.fnum[i], st.isSet[i] = f, isSet
	} else if vIsNumeric(p) {
		n, err := parseI64(payload)
		sym.Assert(err == nil, "stored-value-parses")
		st.num[i], st.isSet[i] = n, isSet
	} else {
		st.val[i] = append([]byte(nil), payload...)
	}
}
