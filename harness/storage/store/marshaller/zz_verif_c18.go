package marshaller

import (
	"encoding/binary"

	pbstore "github.com/streamingfast/substreams/storage/store/marshaller/pb"
	sym "github.com/streamingfast/substreams/zz_verifsym"
)

type c18Entry struct {
	k string
	v []byte
}

func c18Data() (*StoreData, []c18Entry, uint64) {
	n := sym.Choice("entries", sym.Param("ENTRIES", 2)+1)
	d := &StoreData{Kv: map[string][]byte{}}
	var es []c18Entry
	size := uint64(0)
	for i := 0; i < n; i++ {
		k := sym.Str("key", sym.Param("KEYLEN", 2))
		v := sym.Bytes("value", sym.Param("VALLEN", 2))
		for _, p := range es {
			sym.Assume(!sym.EqStr(p.k, k))
		}
		es = append(es, c18Entry{k, v})
		d.Kv[k] = v
		size += uint64(len(k) + len(v))
	}
	np := sym.Choice("prefixes", sym.Param("PREFIXES", 2)+1)
	for i := 0; i < np; i++ {
		d.DeletePrefixes = append(d.DeletePrefixes, sym.Str("prefix", 1))
	}
	return d, es, size
}

func c18SameKV(es []c18Entry, got map[string][]byte, label string) {
	sym.Assert(len(got) == len(es), label+"-count")
	for _, e := range es {
		v, ok := got[e.k]
		sym.Assert(ok, label+"-has-key")
		if ok {
			sym.Assert(sym.EqBytes(v, e.v), label+"-value")
		}
	}
}

func c18SamePrefixes(want, got []string, label string) {
	sym.Assert(len(want) == len(got), label+"-prefix-count")
	if len(want) == len(got) {
		for i := range want {
			sym.Assert(sym.EqStr(want[i], got[i]), label+"-prefix")
		}
	}
}

// VerifC18Store: every store marshaller reads back what it wrote, the
// hand-written encoder's bytes decode with the generated decoder, and the size
// reported on load is the total length of keys and values.
func VerifC18Store() {
	d, es, size := c18Data()

	// default marshaller: generated MarshalVT + hand-written unmarshalVT
	vt := &VTproto{}
	b, err := vt.Marshal(d)
	if err != nil {
		sym.Unreachable("vtproto-marshal-ok")
		return
	}
	back, dataSize, err := vt.Unmarshal(b)
	if err != nil {
		sym.Unreachable("vtproto-unmarshal-ok")
		return
	}
	c18SameKV(es, back.Kv, "vtproto-roundtrip")
	c18SamePrefixes(d.DeletePrefixes, back.DeletePrefixes, "vtproto-roundtrip")
	sym.Assert(dataSize == size, "vtproto-data-size")

	// hand-written encoder -> generated decoder
	pf := &ProtoingFast{}
	fb, err := pf.Marshal(d)
	if err != nil {
		sym.Unreachable("protoing-fast-marshal-ok")
		return
	}
	std := &pbstore.StoreData{}
	if err := std.UnmarshalVT(fb); err != nil {
		sym.Unreachable("generated-decoder-accepts-fast-bytes")
		return
	}
	c18SameKV(es, std.Kv, "fast-bytes-generated-decoder")
	c18SamePrefixes(d.DeletePrefixes, std.DeletePrefixes, "fast-bytes-generated-decoder")
	// ... and the hand-written decoder
	std2 := &pbstore.StoreData{}
	ds2, err := unmarshalVT(std2, fb)
	if err != nil {
		sym.Unreachable("fast-decoder-accepts-fast-bytes")
		return
	}
	c18SameKV(es, std2.Kv, "fast-bytes-fast-decoder")
	sym.Assert(ds2 == size, "fast-bytes-data-size")

	// binary marshaller
	bin := &Binary{}
	bb, err := bin.Marshal(d)
	if err != nil {
		sym.Unreachable("binary-marshal-ok")
		return
	}
	bback, _, err := bin.Unmarshal(bb)
	if err != nil {
		sym.Unreachable("binary-unmarshal-ok")
		return
	}
	c18SameKV(es, bback.Kv, "binary-roundtrip")
	sym.Reach("done")
}

// VerifC18Reuse: the bytes a marshaller returned stay what they were when the
// same marshaller encodes another store afterwards (snapshots are written
// asynchronously while the next segment is already being saved).
func VerifC18Reuse() {
	mk := func(tag string) (*StoreData, []c18Entry) {
		d := &StoreData{Kv: map[string][]byte{}}
		var es []c18Entry
		n := sym.Choice("entries-"+tag, 2) + 1
		for i := 0; i < n; i++ {
			k := string(rune('a' + i))
			v := sym.Bytes("value-"+tag, sym.Param("VALLEN", 2))
			es = append(es, c18Entry{k, v})
			d.Kv[k] = v
		}
		return d, es
	}
	a, ea := mk("a")
	b, eb := mk("b")
	var m Marshaller
	switch sym.Choice("marshaller", 3) {
	case 0:
		m = Default()
	case 1:
		m = &VTproto{}
	default:
		m = &ProtoingFast{}
	}
	ba, err := m.Marshal(a)
	if err != nil {
		sym.Unreachable("first-marshal-ok")
		return
	}
	bb, err := m.Marshal(b)
	if err != nil {
		sym.Unreachable("second-marshal-ok")
		return
	}
	backA, _, err := (&VTproto{}).Unmarshal(ba)
	if err != nil {
		sym.Unreachable("first-bytes-still-decode")
		return
	}
	c18SameKV(ea, backA.Kv, "first-bytes-unchanged-by-second-marshal")
	backB, _, err := (&VTproto{}).Unmarshal(bb)
	if err != nil {
		sym.Unreachable("second-bytes-decode")
		return
	}
	c18SameKV(eb, backB.Kv, "second-bytes")
	sym.Reach("done")
}

// VerifC18Varint: uvarintByteCount agrees with encoding/binary for every 64-bit value.
func VerifC18Varint() {
	x := sym.U64("x")
	buf := make([]byte, binary.MaxVarintLen64)
	n := binary.PutUvarint(buf, x)
	sym.Assert(uvarintByteCount(x) == n, "uvarint-byte-count")
	y, m := binary.Uvarint(buf[:n])
	sym.Assert(m == n, "uvarint-read-length")
	sym.Assert(y == x, "uvarint-roundtrip")
	sym.Reach("done")
}
