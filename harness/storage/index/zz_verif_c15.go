package index

import (
	"github.com/RoaringBitmap/roaring/roaring64"
	pbindex "github.com/streamingfast/substreams/pb/sf/substreams/index/v1"
	"github.com/streamingfast/substreams/sqe"
	sym "github.com/streamingfast/substreams/zz_verifsym"
	"google.golang.org/protobuf/proto"
)

var c15Keys = []string{"a", "b", "c"}

// c15Expr draws an expression tree of bounded depth over keys {a,b,c}.
func c15Expr(depth int) sqe.Expression {
	kinds := 4
	if depth == 0 {
		kinds = 1
	}
	switch sym.Choice("node", kinds) {
	case 0:
		return &sqe.KeyTerm{Value: &sqe.StringLiteral{Value: c15Keys[sym.Choice("key", len(c15Keys))]}}
	case 1:
		return &sqe.AndExpression{Children: []sqe.Expression{c15Expr(depth - 1), c15Expr(depth - 1)}}
	case 2:
		return &sqe.OrExpression{Children: []sqe.Expression{c15Expr(depth - 1), c15Expr(depth - 1)}}
	default:
		return &sqe.ParenthesisExpression{Child: c15Expr(depth - 1)}
	}
}

// VerifC15Skip: the skip decision taken from a pre-computed index equals the
// one taken from the block's own keys (index present vs absent / being built).
func VerifC15Skip() {
	expr := c15Expr(sym.Param("DEPTH", 2))
	bitsA, bitsB := sym.Byte("bits-a"), sym.Byte("bits-b")
	bitmaps := map[string]*roaring64.Bitmap{"a": sym.BitmapFromBits(bitsA), "b": sym.BitmapFromBits(bitsB)}
	blk := sym.U64("block")
	sym.Assume(blk < 8)

	withIndex := NewBlockIndex(expr, "idx", sqe.RoaringBitmapsApply(expr, bitmaps))
	withoutIndex := NewBlockIndex(expr, "idx", nil)
	sym.Assert(withIndex.Precomputed(), "precomputed")
	sym.Assert(!withoutIndex.Precomputed(), "not-precomputed")

	var keys []string
	if bitmaps["a"].Contains(blk) {
		keys = append(keys, "a")
	}
	if bitmaps["b"].Contains(blk) {
		keys = append(keys, "b")
	}
	data, err := proto.Marshal(&pbindex.Keys{Keys: keys})
	if err != nil {
		sym.Unreachable("marshal-ok")
		return
	}
	sym.Assert(withIndex.Skip(blk) == withoutIndex.SkipFromKeys(data), "skip-with-index-equals-skip-from-keys")
	sym.Assert(!withoutIndex.Skip(blk), "no-index-never-skips-by-bitmap")
	// an index that excludes all blocks really selects none
	if withIndex.ExcludesAllBlocks() {
		sym.Assert(withIndex.Skip(blk), "excludes-all-means-skip")
	}
	sym.Reach("compared")
}
