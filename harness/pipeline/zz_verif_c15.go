package pipeline

import (
	"context"
	"time"

	"github.com/RoaringBitmap/roaring/roaring64"
	"github.com/streamingfast/bstream"
	"github.com/streamingfast/substreams/manifest"
	"github.com/streamingfast/substreams/metrics"
	pbindex "github.com/streamingfast/substreams/pb/sf/substreams/index/v1"
	pbsubstreams "github.com/streamingfast/substreams/pb/sf/substreams/v1"
	"github.com/streamingfast/substreams/pipeline/cache"
	"github.com/streamingfast/substreams/pipeline/exec"
	"github.com/streamingfast/substreams/reqctx"
	"github.com/streamingfast/substreams/storage/execout"
	"github.com/streamingfast/substreams/storage/store"
	"github.com/streamingfast/substreams/wasm"
	sym "github.com/streamingfast/substreams/zz_verifsym"
	"go.uber.org/zap"
	"google.golang.org/protobuf/proto"
)

// c15Fake is a scripted stand-in for the WASM runtime: the index module "idx" emits the
// keys the harness decided for the block, the filtered mapper "out" records that it ran.
type c15Fake struct {
	keysAt func(block uint64) []string
	ranOn  *[]uint64
}

type c15Instance struct{}

func (c15Instance) Cleanup(ctx context.Context) error { return nil }
func (c15Instance) Close(ctx context.Context) error   { return nil }

func (f *c15Fake) NewInstance(ctx context.Context) (wasm.Instance, error) { return c15Instance{}, nil }
func (f *c15Fake) Close(ctx context.Context) error                        { return nil }
func (f *c15Fake) ExecuteNewCall(ctx context.Context, call *wasm.Call, cached wasm.Instance, arguments []wasm.Argument, argValues map[string][]byte) (wasm.Instance, error) {
	switch call.ModuleName {
	case "idx":
		b, err := proto.Marshal(&pbindex.Keys{Keys: f.keysAt(call.Clock.Number)})
		if err != nil {
			return nil, err
		}
		call.SetReturnValue(b)
	case "out":
		*f.ranOn = append(*f.ranOn, call.Clock.Number)
		call.SetReturnValue([]byte{1})
	}
	return c15Instance{}, nil
}

// VerifC15Pipeline: a mapper filtered on a block-index module, executed by the real
// Pipeline.BuildModuleExecutors / executeModules / exec.RunModule (skipFromIndex) with a
// scripted WASM runtime: whatever the state of the index for the segment — absent, present
// with the filter's key, present with other keys only, present but empty — the mapper runs
// on exactly the blocks whose own keys satisfy the filter, and execution never fails.
func VerifC15Pipeline() {
	manifest.TestUseSimpleHash = true
	src := func() *pbsubstreams.Module_Input {
		return &pbsubstreams.Module_Input{Input: &pbsubstreams.Module_Input_Source_{Source: &pbsubstreams.Module_Input_Source{Type: "sf.test.Block"}}}
	}
	query := []string{"a", "a || b", "a b"}[sym.Choice("query", 3)]
	mods := &pbsubstreams.Modules{
		Modules: []*pbsubstreams.Module{
			{Name: "idx", BinaryEntrypoint: "idx", Inputs: []*pbsubstreams.Module_Input{src()}, Kind: &pbsubstreams.Module_KindBlockIndex_{KindBlockIndex: &pbsubstreams.Module_KindBlockIndex{OutputType: "proto:sf.substreams.index.v1.Keys"}}, Output: &pbsubstreams.Module_Output{Type: "proto:sf.substreams.index.v1.Keys"}},
			{Name: "out", BinaryEntrypoint: "out", Inputs: []*pbsubstreams.Module_Input{src()}, Kind: &pbsubstreams.Module_KindMap_{KindMap: &pbsubstreams.Module_KindMap{OutputType: "proto:x"}}, Output: &pbsubstreams.Module_Output{Type: "proto:x"},
				BlockFilter: &pbsubstreams.Module_BlockFilter{Module: "idx", Query: &pbsubstreams.Module_BlockFilter_QueryString{QueryString: query}}},
		},
		Binaries: []*pbsubstreams.Binary{{Type: "wasm/rust-v1", Content: []byte{1}}},
	}
	graph, err := exec.NewOutputModuleGraph("out", true, mods, 0)
	if err != nil {
		sym.Unreachable("graph-ok")
		return
	}
	// which keys the index module emits on the blocks 0..3 of the segment
	const nBlocks = 4
	bitsA, bitsB := sym.Byte("bits-a"), sym.Byte("bits-b")
	sym.Assume(bitsA < 1<<nBlocks)
	sym.Assume(bitsB < 1<<nBlocks)
	has := func(bits byte, blk uint64) bool { return bits&(1<<blk) != 0 }
	keysAt := func(blk uint64) (out []string) {
		if has(bitsA, blk) {
			out = append(out, "a")
		}
		if has(bitsB, blk) {
			out = append(out, "b")
		}
		return
	}
	var ranOn []uint64
	wasm.RegisterModuleFactory("verif-scripted", wasm.ModuleFactoryFunc(func(ctx context.Context, code []byte, typ string, reg *wasm.Registry) (wasm.Module, error) {
		return &c15Fake{keysAt: keysAt, ranOn: &ranOn}, nil
	}))
	// the state of the index file for this segment, as a later request finds it
	var indices map[string]map[string]*roaring64.Bitmap
	switch sym.Choice("index-state", 4) {
	case 0: // no index file
	case 1: // the file the index module's outputs give: one bitmap per emitted key
		m := map[string]*roaring64.Bitmap{}
		if bitsA != 0 {
			m["a"] = sym.BitmapFromBits(bitsA)
		}
		if bitsB != 0 {
			m["b"] = sym.BitmapFromBits(bitsB)
		}
		indices = map[string]map[string]*roaring64.Bitmap{"idx": m}
	case 2: // an index file without any key (the module emitted nothing on the segment)
		sym.Assume(bitsA == 0 && bitsB == 0)
		indices = map[string]map[string]*roaring64.Bitmap{"idx": {}}
	case 3: // only the other key was ever emitted
		sym.Assume(bitsA == 0 && bitsB != 0)
		indices = map[string]map[string]*roaring64.Bitmap{"idx": {"b": sym.BitmapFromBits(bitsB)}}
	}
	ctx := reqctx.WithRequest(context.Background(), &reqctx.RequestDetails{ProductionMode: true, OutputModule: "out", Modules: mods})
	ctx = reqctx.WithReqStats(ctx, metrics.NewReqStats(&metrics.Config{}, zap.NewNop()))
	engine, _ := cache.NewEngine(ctx, nil, "sf.test.Block", nil, nil)
	p := &Pipeline{
		ctx:                     ctx,
		execGraph:               graph,
		executionStages:         graph.StagedUsedModules(),
		wasmRuntime:             wasm.NewRegistryWithRuntime("verif-scripted", nil),
		stores:                  &Stores{StoreMap: store.NewMap(), logger: zap.NewNop()},
		forkHandler:             NewForkHandler(),
		execOutputCache:         engine,
		preexistingBlockIndices: indices,
		executionTimeout:        time.Minute,
		blockStepMap:            map[bstream.StepType]uint64{},
	}
	for blk := uint64(0); blk < nBlocks; blk++ {
		buf, err := execout.NewBuffer("sf.test.Block", nil, &pbsubstreams.Clock{Number: blk, Id: "b"})
		if err != nil {
			sym.Unreachable("buffer-ok")
			return
		}
		buf.Set("sf.test.Block", []byte{byte(blk)})
		before := len(ranOn)
		if err := p.executeModules(ctx, buf); err != nil {
			sym.Unreachable("filtered-module-executes-whatever-the-index-state")
			return
		}
		a, b := has(bitsA, blk), has(bitsB, blk)
		var matches bool
		switch query {
		case "a":
			matches = a
		case "a || b":
			matches = a || b
		default:
			matches = a && b
		}
		ran := len(ranOn) > before
		sym.Assert(ran == matches, "filtered-module-runs-exactly-on-the-blocks-its-filter-matches")
	}
	sym.Reach("executed")
}
