package pipeline

import (
	"context"

	"github.com/streamingfast/bstream"
	"github.com/streamingfast/substreams/reqctx"
	sym "github.com/streamingfast/substreams/zz_verifsym"
)

// VerifC04Gate: a strictly increasing block sequence fed to the real gate and
// stop check (in the order ProcessBlock/handleStepNew use them): outputs are
// sent exactly for the blocks with gate <= num < stop, the gate never closes
// again, and nothing is sent at or after the stop block.
func VerifC04Gate() {
	k := sym.Param("BLOCKS", 4)
	gateBlock := sym.U64("gate")
	stop := sym.U64("stop")
	sym.Assume(sym.Or(stop == 0, stop > gateBlock))
	ctx := reqctx.WithRequest(context.Background(), &reqctx.RequestDetails{LinearGateBlockNum: gateBlock, StopBlockNum: stop})
	g := newGate(ctx)

	prev := uint64(0)
	opened := false
	ended := false
	for i := 0; i < k; i++ {
		num := sym.U64("num")
		if i > 0 {
			sym.Assume(num > prev)
		}
		prev = num
		step := bstream.StepNew
		if sym.Choice("final", 2) == 1 {
			step = bstream.StepNewIrreversible
		}
		// Pipeline.ProcessBlock
		g.processBlock(num, step)
		// Pipeline.handleStepNew
		if isBlockOverStopBlock(num, stop) {
			ended = true
			sym.Assert(sym.And(stop != 0, num >= stop), "stream-ends-only-at-stop-block")
			break
		}
		sends := g.shouldSendOutputs()
		sym.Assert(sends == (num >= gateBlock), "outputs-sent-exactly-from-the-gate-block-on")
		if opened {
			sym.Assert(sends, "gate-never-closes-again")
		}
		if sends {
			opened = true
			sym.Assert(sym.Or(stop == 0, num < stop), "nothing-sent-at-or-after-stop")
		}
		if g.shouldSendSnapshot() {
			sym.Assert(sends, "snapshot-only-when-outputs-flow")
		}
	}
	_ = ended
	sym.Reach("done")
}
