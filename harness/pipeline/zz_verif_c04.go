package pipeline

import (
	"context"
	"errors"
	"io"

	"github.com/streamingfast/bstream"
	"github.com/streamingfast/substreams"
	"github.com/streamingfast/substreams/manifest"
	"github.com/streamingfast/substreams/metrics"
	"github.com/streamingfast/substreams/orchestrator/plan"
	pbsubstreamsrpc "github.com/streamingfast/substreams/pb/sf/substreams/rpc/v2"
	pbsubstreams "github.com/streamingfast/substreams/pb/sf/substreams/v1"
	"github.com/streamingfast/substreams/pipeline/cache"
	"github.com/streamingfast/substreams/pipeline/exec"
	"github.com/streamingfast/substreams/reqctx"
	"github.com/streamingfast/substreams/storage/execout"
	"github.com/streamingfast/substreams/storage/store"
	sym "github.com/streamingfast/substreams/zz_verifsym"
	"go.uber.org/zap"
)

// VerifC04Gate: a strictly increasing block sequence fed to the real gate and
// stop check (in the order ProcessBlock/handleStepNew use them): outputs are
// sent exactly for the blocks with gate <= num < stop, the gate never closes
// again, and nothing is sent at or after the stop block.
func VerifC04Gate() {
	k := sym.Param("BLOCKS", 4)
	gateBlock := sym.U64("gate")
	stop := sym.U64("stop")
	sym.Assume(sym.Or(stop == 0, stop > gateBlock))
	ctx := reqctx.WithRequest(context.Background(), &reqctx.RequestDetails{LinearGateBlockNum: gateBlock, StopBlockNum: stop})
	g := newGate(ctx)

	prev := uint64(0)
	opened := false
	ended := false
	for i := 0; i < k; i++ {
		num := sym.U64("num")
		if i > 0 {
			sym.Assume(num > prev)
		}
		prev = num
		step := bstream.StepNew
		if sym.Choice("final", 2) == 1 {
			step = bstream.StepNewIrreversible
		}
		// Pipeline.ProcessBlock
		g.processBlock(num, step)
		// Pipeline.handleStepNew
		if isBlockOverStopBlock(num, stop) {
			ended = true
			sym.Assert(sym.And(stop != 0, num >= stop), "stream-ends-only-at-stop-block")
			break
		}
		sends := g.shouldSendOutputs()
		sym.Assert(sends == (num >= gateBlock), "outputs-sent-exactly-from-the-gate-block-on")
		if opened {
			sym.Assert(sends, "gate-never-closes-again")
		}
		if sends {
			opened = true
			sym.Assert(sym.Or(stop == 0, num < stop), "nothing-sent-at-or-after-stop")
		}
		if g.shouldSendSnapshot() {
			sym.Assert(sends, "snapshot-only-when-outputs-flow")
		}
	}
	_ = ended
	sym.Reach("done")
}

// c04Delivery runs resolution and planning for one request (glue of
// Tier1Service.blocks mirrored as in VerifC12Plan) and returns, for a probe
// block x, whether the plan delivers it: x lies in the cached-output read
// range, or in the linear range at or above the gate.
func c04Delivery(request *pbsubstreamsrpc.Request, size uint64, outInit uint64, nStores int,
	getLib func() (uint64, error), resolve CursorResolver, x uint64) (details *reqctx.RequestDetails, undo *pbsubstreamsrpc.BlockUndoSignal, delivered bool, status string) {
	execGraph, err := exec.NewOutputModuleGraph(request.OutputModule, request.ProductionMode, request.Modules, 0)
	if err != nil {
		return nil, nil, false, "graph-rejected"
	}
	noHead := func() (uint64, error) { return 0, errors.New("unused") }
	details, undo, err = BuildRequestDetails(context.Background(), request, getLib, resolve, noHead, size)
	if err != nil {
		return nil, nil, false, "details-error"
	}
	S, H, G, E := details.ResolvedStartBlockNum, details.LinearHandoffBlockNum, details.LinearGateBlockNum, details.StopBlockNum
	if S == E && E != 0 {
		return details, undo, false, "start-equals-stop"
	}
	if err := execGraph.ValidateRequestStartBlock(S); err != nil {
		return details, undo, false, "start-rejected"
	}
	scheduleStores := execGraph.StagedUsedModules()[0].LastLayer().IsStoreLayer()
	var lowestStoresInitBlock uint64
	if scheduleStores {
		lowestStoresInitBlock = *execGraph.LowestStoresInitBlock()
	}
	p, err := plan.BuildTier1RequestPlan(details.ProductionMode, size, execGraph.LowestInitBlock(), lowestStoresInitBlock, S, H, E, scheduleStores)
	if err != nil {
		return details, undo, false, "plan-error"
	}
	belowStop := sym.Or(E == 0, x < E)
	inRead := false
	if p.ReadExecOut != nil {
		inRead = sym.And(x >= p.ReadExecOut.StartBlock, x < p.ReadExecOut.ExclusiveEndBlock)
	}
	inLinear := false
	if p.LinearPipeline != nil {
		// Pipeline: blocks of the linear range flow from the hand-off, outputs from the gate block on
		inLinear = sym.And(sym.And(x >= p.LinearPipeline.StartBlock, x >= G), belowStop)
	}
	return details, undo, sym.Or(inRead, inLinear), "ok"
}

// VerifC04Resume: a request is re-sent with the cursor of a delivered final
// block N (same start block, same stop block, finality possibly further): the
// blocks the resumed request delivers are exactly the delivered blocks of the
// original request above N, for every mode, segment size, module initial
// blocks and finality, decided for an arbitrary probe block.
func VerifC04Resume() {
	manifest.TestUseSimpleHash = true
	shape := c12ShapeOrder[sym.Choice("shape", sym.Param("SHAPES", 7))]
	mods, outName, outInit, storeInits := c12Graph(shape)
	prod := sym.Choice("production", 2) == 1
	size := c12Sizes[sym.Choice("size", sym.Param("SIZES", len(c12Sizes)))]

	const lim = 1 << 40
	start := sym.I64("start")
	stop := sym.U64("stop")
	sym.Assume(start >= 0)
	sym.Assume(start <= lim)
	sym.Assume(stop <= lim)
	sym.Assume(sym.Or(stop == 0, stop > uint64(start)))
	x := sym.U64("x")
	n := sym.U64("resume-after")
	sym.Assume(n <= lim)

	// the original request was served: its start block is not below the output module's
	// initial block (ValidateRequestStartBlock); an invalid graph is rejected for both requests alike
	sym.Assume(uint64(start) >= outInit)
	// N is a block the original stream delivered: by C12 (VerifC12Plan, cover-exact) the
	// served original request delivers exactly the blocks of [start, stop)
	sym.Assume(n >= uint64(start))
	sym.Assume(sym.Or(stop == 0, n < stop))

	// the client resumes from the cursor of final block N: step new+irreversible, LIB = the block itself
	ref := bstream.NewBlockRef("nn", n)
	cur := &bstream.Cursor{Step: bstream.StepNewIrreversible, Block: ref, LIB: ref, HeadBlock: ref}
	// N is final
	libKnown2 := sym.Choice("lib-known-on-resume", 2) == 1
	lib2 := sym.U64("lib-on-resume")
	sym.Assume(lib2 <= lim)
	sym.Assume(lib2 >= n)
	getLib2 := func() (uint64, error) {
		if !libKnown2 {
			return 0, errors.New("no final block")
		}
		return lib2, nil
	}
	called := false
	resolve := func(ctx context.Context, c *bstream.Cursor) (bstream.BlockRef, bstream.BlockRef, error) {
		called = true
		return nil, nil, errors.New("unused for a final cursor")
	}
	again := &pbsubstreamsrpc.Request{StartBlockNum: start, StopBlockNum: stop, Modules: mods, OutputModule: outName, ProductionMode: prod, StartCursor: cur.ToOpaque()}
	details, undo, resumedX, st2 := c04Delivery(again, size, outInit, len(storeInits), getLib2, resolve, x)
	switch st2 {
	case "details-error":
		// production without finality information and without stop block cannot be resolved, cursor or not
		sym.Assert(sym.And(prod && !libKnown2, stop == 0), "resume-error-only-when-unresolvable")
		return
	case "start-equals-stop":
		sym.Reach("resume-after-last-block")
		sym.Assert(sym.And(stop != 0, n+1 == stop), "nothing-left-only-after-the-last-block")
		return
	case "graph-rejected":
		// an invalid module graph is rejected for the original request just as well: no stream to resume
		sym.Reach("graph-rejected")
		return
	case "ok":
	default:
		sym.Unreachable("resumed-request-served")
		return
	}
	sym.Reach("resumed")
	sym.Assert(!called, "final-cursor-does-not-consult-the-fork-resolver")
	sym.Assert(undo == nil, "final-cursor-no-undo")
	sym.Assert(details.ResolvedStartBlockNum == n+1, "resume-starts-right-after-the-cursor-block")
	sym.Assert(resumedX == sym.And(x > n, sym.Or(stop == 0, x < stop)), "resumed-stream-is-the-suffix-after-the-cursor-block")
}

// VerifC04StepNew: a strictly increasing run of new / new+final blocks through
// the real Pipeline.processBlock → handleStepNew (→ handleStepFinal), with an
// output module that produces nothing (no executor runs): in development and
// in production mode alike, every block from the gate on and below the stop
// block is delivered exactly once, as its own message (clock, cursor, final
// height), the stream ends at the stop block and nothing is delivered after.
func VerifC04StepNew() {
	k := sym.Param("BLOCKS", 3)
	prod := sym.Choice("production", 2) == 1
	// small concrete numbers (the gate / stop arithmetic over all 64-bit values is VerifC04Gate's):
	// this harness is about which blocks get a message once the real handler runs
	gateBlock := []uint64{0, 2, 3}[sym.Choice("gate", 3)]
	stop := []uint64{0, 4, 5}[sym.Choice("stop", 3)]
	ctx := reqctx.WithRequest(context.Background(), &reqctx.RequestDetails{LinearGateBlockNum: gateBlock, StopBlockNum: stop, ProductionMode: prod, OutputModule: "out"})
	ctx = reqctx.WithReqStats(ctx, metrics.NewReqStats(&metrics.Config{}, zap.NewNop()))
	engine, _ := cache.NewEngine(ctx, nil, "sf.test.Block", nil, nil)
	var sent []*pbsubstreamsrpc.BlockScopedData
	p := &Pipeline{
		ctx:             ctx,
		gate:            newGate(ctx),
		forkHandler:     NewForkHandler(),
		stores:          &Stores{StoreMap: store.NewMap(), logger: zap.NewNop()},
		execOutputCache: engine,
		blockStepMap:    map[bstream.StepType]uint64{},
		ModuleExecutors: [][]exec.ModuleExecutor{},
		stateBundleSize: 10,
	}
	p.respFunc = func(anyResp substreams.ResponseFromAnyTier) error {
		if r, ok := anyResp.(*pbsubstreamsrpc.Response); ok {
			if d := r.GetBlockScopedData(); d != nil {
				sent = append(sent, d)
			}
		}
		return nil
	}
	prev := uint64(0)
	lib := bstream.NewBlockRef("g", 0)
	for i := 0; i < k; i++ {
		num := prev + 1 + uint64(sym.Choice("skip", 2)) // chains may skip numbers
		prev = num
		id := "b" + string(rune('0'+i))
		ref := bstream.NewBlockRef(id, num)
		step := bstream.StepNew
		if sym.Choice("final", 2) == 1 {
			step = bstream.StepNewIrreversible
			lib = ref
		}
		clock := &pbsubstreams.Clock{Number: num, Id: id}
		cursor := &bstream.Cursor{Step: step, Block: ref, LIB: lib, HeadBlock: ref}
		// Pipeline.ProcessBlock (its three lines before processBlock, mirrored)
		p.gate.processBlock(num, step)
		buf, err := execout.NewBuffer("sf.test.Block", nil, clock)
		if err != nil {
			sym.Unreachable("buffer-ok")
			return
		}
		before := len(sent)
		err = p.processBlock(ctx, buf, clock, cursor, step, nil)
		if err == io.EOF {
			sym.Assert(sym.And(stop != 0, num >= stop), "stream-ends-only-at-the-stop-block")
			sym.Assert(len(sent) == before, "nothing-delivered-at-or-after-the-stop-block")
			sym.Reach("ended")
			return
		}
		if err != nil {
			sym.Unreachable("block-processed-without-error")
			return
		}
		sym.Assert(sym.Or(stop == 0, num < stop), "stream-ends-at-the-stop-block")
		want := 0
		if num >= gateBlock {
			want = 1
		}
		sym.Assert(len(sent)-before == want, "every-block-from-the-gate-on-delivered-once-even-when-empty")
		if len(sent)-before == 1 {
			d := sent[len(sent)-1]
			sym.Assert(d.Clock.Number == num && d.Clock.Id == id, "message-carries-its-block")
			sym.Assert(d.FinalBlockHeight == lib.Num(), "message-carries-the-final-height")
			back, derr := bstream.CursorFromOpaque(d.Cursor)
			sym.Assert(derr == nil, "message-cursor-decodes")
			if derr == nil {
				sym.Assert(back.Block.Num() == num && back.Block.ID() == id, "message-cursor-designates-its-block")
			}
			sym.Reach("delivered")
		}
	}
	sym.Reach("done")
}
