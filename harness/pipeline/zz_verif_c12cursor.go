package pipeline

import (
	"context"
	"errors"

	"github.com/streamingfast/bstream"
	pbsubstreamsrpc "github.com/streamingfast/substreams/pb/sf/substreams/rpc/v2"
	sym "github.com/streamingfast/substreams/zz_verifsym"
)

// VerifC12Cursor: start-block resolution from a cursor. A cursor on a final
// block restarts right after it; a cursor on a forked block resolves to an undo
// signal for the fork's junction block followed by a restart right after it;
// an undo-step cursor restarts at its block; impossible cursors are errors.
func VerifC12Cursor() {
	steps := []bstream.StepType{bstream.StepNew, bstream.StepUndo, bstream.StepNewIrreversible}
	step := steps[sym.Choice("step", len(steps))]
	blockNum, libNum, headNum := sym.U64("block"), sym.U64("lib"), sym.U64("head")
	sym.Assume(blockNum < 100)
	sym.Assume(libNum < 100)
	sym.Assume(headNum < 100)
	block := bstream.NewBlockRef("bb", blockNum)
	lib := bstream.NewBlockRef("ll", libNum)
	var head bstream.BlockRef = block
	switch sym.Choice("head-kind", sym.Param("HEADKINDS", 3)) {
	case 1:
		head = bstream.NewBlockRef("hh", headNum)
	case 2:
		// c2 form: the cursor's block is its LIB (same id, hence same number)
		sym.Assume(libNum == blockNum)
		lib = block
		head = bstream.NewBlockRef("hh", headNum)
	}
	cur := &bstream.Cursor{Step: step, Block: block, LIB: lib, HeadBlock: head}
	stop := sym.U64("stop")
	sym.Assume(stop < 200)
	req := &pbsubstreamsrpc.Request{StartCursor: cur.ToOpaque(), StopBlockNum: stop, StartBlockNum: int64(sym.Param("REQSTART", 7))}

	// the fork resolver's answer: error, "still on the chain", or a junction below the cursor block
	answer := sym.Choice("resolver", 3)
	junctionNum := sym.U64("junction")
	sym.Assume(junctionNum < 100)
	junction := bstream.NewBlockRef("jj", junctionNum)
	curHead := bstream.NewBlockRef("ch", sym.U64("current-head"))
	called := false
	resolve := func(ctx context.Context, c *bstream.Cursor) (bstream.BlockRef, bstream.BlockRef, error) {
		called = true
		sym.Assert(c.Block.Num() == blockNum && c.Block.ID() == "bb", "resolver-gets-the-cursor-block")
		sym.Assert(c.LIB.Num() == libNum, "resolver-gets-the-cursor-lib")
		switch answer {
		case 0:
			return nil, nil, errors.New("cannot resolve")
		case 1:
			return nil, curHead, nil
		}
		return junction, curHead, nil
	}
	noHead := func() (uint64, error) { return 0, errors.New("unused") }

	// through the real BuildRequestDetails, so that the hand-off computed for the
	// resolved start block cooperates with the cursor resolution
	req.ProductionMode = true
	libKnown := true
	if sym.Param("ALLMODES", 0) == 1 {
		req.ProductionMode = sym.Choice("production", 2) == 1
		libKnown = sym.Choice("lib-known", 2) == 1
	}
	finalNum := sym.U64("final-block")
	sym.Assume(finalNum < 300)
	getLib := func() (uint64, error) {
		if !libKnown {
			return 0, errors.New("no final block")
		}
		return finalNum, nil
	}
	details, undo, err := BuildRequestDetails(context.Background(), req, getLib, resolve, noHead, 10)
	if err != nil && req.ProductionMode && !libKnown && stop == 0 {
		return // production without any finality information and no stop block: unresolvable, whatever the cursor
	}
	var start uint64
	resolved := ""
	belowHandoff := false
	if err == nil {
		// with a cursor too, outputs are gated at the resolved start block (linear blocks flow from the hand-off)
		sym.Assert(max(details.LinearGateBlockNum, details.LinearHandoffBlockNum) == max(details.ResolvedStartBlockNum, details.LinearHandoffBlockNum), "outputs-gated-at-the-resolved-start-block")
		start = details.ResolvedStartBlockNum
		resolved = details.ResolvedCursor
		belowHandoff = details.ResolvedStartBlockNum < details.LinearHandoffBlockNum
	}
	sym.Observe("start", start)

	if stop > 0 && stop < blockNum {
		sym.Assert(err != nil, "cursor-after-stop-block-rejected")
		return
	}
	if blockNum == libNum { // cursor on a final block
		sym.Reach("final-cursor")
		sym.Assert(err == nil, "final-cursor-accepted")
		if err == nil {
			sym.Assert(start == blockNum+1, "final-cursor-restarts-right-after-its-block")
			sym.Assert(undo == nil, "final-cursor-no-undo")
			sym.Assert(resolved == "", "final-cursor-needs-no-cursor")
			sym.Assert(!called, "final-cursor-does-not-consult-the-fork-resolver")
		}
		return
	}
	if libNum > blockNum {
		sym.Assert(err != nil, "lib-above-block-rejected")
		return
	}
	if answer == 0 {
		sym.Assert(err != nil, "unresolvable-cursor-rejected")
		return
	}
	sym.Assert(err == nil, "resolvable-cursor-accepted")
	if err != nil {
		return
	}
	sym.Assert(called, "fork-resolver-consulted")
	if answer == 2 && junctionNum != blockNum {
		sym.Reach("forked-cursor")
		if undo == nil {
			sym.Unreachable("forked-cursor-yields-undo-signal")
			return
		}
		sym.Assert(undo.LastValidBlock.Number == junctionNum && undo.LastValidBlock.Id == "jj", "undo-signal-designates-the-junction")
		sym.Assert(start == junctionNum+1, "restart-right-after-the-junction")
		if !belowHandoff {
			sym.Assert(undo.LastValidCursor == resolved, "undo-cursor-is-the-resolved-cursor")
		}
		back, derr := bstream.CursorFromOpaque(undo.LastValidCursor)
		sym.Assert(derr == nil, "resolved-cursor-decodes")
		if derr == nil {
			sym.Assert(back.Block.Num() == junctionNum && back.Block.ID() == "jj", "resolved-cursor-designates-the-junction")
			sym.Assert(back.Step == bstream.StepNew, "resolved-cursor-is-a-new-step")
		}
		return
	}
	sym.Reach("on-chain-cursor")
	sym.Assert(undo == nil, "no-undo-when-cursor-block-is-still-on-the-chain")
	if step.Matches(bstream.StepUndo) {
		sym.Assert(start == blockNum, "undo-step-cursor-restarts-at-its-block")
	} else {
		sym.Assert(start == blockNum+1, "new-step-cursor-restarts-after-its-block")
	}
	if belowHandoff {
		sym.Assert(resolved == "", "cursor-dropped-below-the-hand-off")
		return
	}
	back, derr := bstream.CursorFromOpaque(resolved)
	sym.Assert(derr == nil, "kept-cursor-decodes")
	if derr == nil {
		sym.Assert(back.Block.Num() == blockNum && back.Block.ID() == "bb", "kept-cursor-designates-the-cursor-block")
	}
}
