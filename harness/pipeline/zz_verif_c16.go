package pipeline

import (
	"context"
	"errors"
	"time"

	"github.com/streamingfast/bstream"
	"github.com/streamingfast/substreams/manifest"
	"github.com/streamingfast/substreams/metrics"
	pbsubstreams "github.com/streamingfast/substreams/pb/sf/substreams/v1"
	"github.com/streamingfast/substreams/pipeline/cache"
	"github.com/streamingfast/substreams/pipeline/exec"
	"github.com/streamingfast/substreams/reqctx"
	"github.com/streamingfast/substreams/storage/execout"
	"github.com/streamingfast/substreams/storage/store"
	"github.com/streamingfast/substreams/wasm"
	sym "github.com/streamingfast/substreams/zz_verifsym"
	"go.uber.org/zap"
)

// c16Fake is a scripted WASM runtime: one chosen module fails deterministically (the
// module's code panics) on one chosen block, every other call returns a payload.
type c16Fake struct {
	failModule string
	failBlock  uint64
	ran        *[]string
}

func (f *c16Fake) NewInstance(ctx context.Context) (wasm.Instance, error) { return c15Instance{}, nil }
func (f *c16Fake) Close(ctx context.Context) error                        { return nil }
func (f *c16Fake) ExecuteNewCall(ctx context.Context, call *wasm.Call, cached wasm.Instance, arguments []wasm.Argument, argValues map[string][]byte) (wasm.Instance, error) {
	*f.ran = append(*f.ran, call.ModuleName)
	if call.ModuleName == f.failModule && call.Clock.Number == f.failBlock {
		call.SetPanicError("module panicked", "lib.rs", 1, 1)
		return c15Instance{}, nil
	}
	call.SetReturnValue([]byte{1})
	return c15Instance{}, nil
}

// VerifC16ModuleFailure: when a module fails deterministically at some block, the real
// Pipeline.executeModules stops at that block with an error that still carries
// exec.ErrWasmDeterministicExec (what both tiers map to invalid-argument) — whether the
// failing module is alone in its layer or runs beside other modules of the same layer —
// and the blocks before it executed normally.
func VerifC16ModuleFailure() {
	manifest.TestUseSimpleHash = true
	src := func() *pbsubstreams.Module_Input {
		return &pbsubstreams.Module_Input{Input: &pbsubstreams.Module_Input_Source_{Source: &pbsubstreams.Module_Input_Source{Type: "sf.test.Block"}}}
	}
	mapIn := func(n string) *pbsubstreams.Module_Input {
		return &pbsubstreams.Module_Input{Input: &pbsubstreams.Module_Input_Map_{Map: &pbsubstreams.Module_Input_Map{ModuleName: n}}}
	}
	mk := func(name string, in ...*pbsubstreams.Module_Input) *pbsubstreams.Module {
		return &pbsubstreams.Module{Name: name, BinaryEntrypoint: name, Inputs: in, Kind: &pbsubstreams.Module_KindMap_{KindMap: &pbsubstreams.Module_KindMap{OutputType: "proto:x"}}, Output: &pbsubstreams.Module_Output{Type: "proto:x"}}
	}
	// m1 and m2 share a layer, out reads both (a layer of its own)
	mods := &pbsubstreams.Modules{Modules: []*pbsubstreams.Module{mk("m1", src()), mk("m2", src()), mk("out", mapIn("m1"), mapIn("m2"))}, Binaries: []*pbsubstreams.Binary{{Type: "wasm/rust-v1", Content: []byte{1}}}}
	graph, err := exec.NewOutputModuleGraph("out", sym.Choice("production", 2) == 1, mods, 0)
	if err != nil {
		sym.Unreachable("graph-ok")
		return
	}
	failing := []string{"m1", "m2", "out"}[sym.Choice("failing-module", 3)]
	failBlock := uint64(sym.Choice("failing-block", 3))
	var ran []string
	wasm.RegisterModuleFactory("verif-failing", wasm.ModuleFactoryFunc(func(ctx context.Context, code []byte, typ string, reg *wasm.Registry) (wasm.Module, error) {
		return &c16Fake{failModule: failing, failBlock: failBlock, ran: &ran}, nil
	}))
	ctx := reqctx.WithRequest(context.Background(), &reqctx.RequestDetails{ProductionMode: true, OutputModule: "out", Modules: mods})
	ctx = reqctx.WithReqStats(ctx, metrics.NewReqStats(&metrics.Config{}, zap.NewNop()))
	engine, _ := cache.NewEngine(ctx, nil, "sf.test.Block", nil, nil)
	p := &Pipeline{
		ctx:              ctx,
		execGraph:        graph,
		executionStages:  graph.StagedUsedModules(),
		wasmRuntime:      wasm.NewRegistryWithRuntime("verif-failing", nil),
		stores:           &Stores{StoreMap: store.NewMap(), logger: zap.NewNop()},
		forkHandler:      NewForkHandler(),
		execOutputCache:  engine,
		executionTimeout: time.Minute,
		blockStepMap:     map[bstream.StepType]uint64{},
	}
	for blk := uint64(0); blk < 3; blk++ {
		buf, err := execout.NewBuffer("sf.test.Block", nil, &pbsubstreams.Clock{Number: blk, Id: "b"})
		if err != nil {
			sym.Unreachable("buffer-ok")
			return
		}
		buf.Set("sf.test.Block", []byte{byte(blk)})
		err = p.executeModules(ctx, buf)
		if blk < failBlock {
			sym.Assert(err == nil, "blocks-before-the-failure-execute")
			continue
		}
		sym.Assert(err != nil, "deterministic-failure-stops-the-block")
		if err != nil {
			sym.Assert(errors.Is(err, exec.ErrWasmDeterministicExec), "failure-still-carries-the-deterministic-execution-error")
		}
		sym.Reach("failed")
		return
	}
}
