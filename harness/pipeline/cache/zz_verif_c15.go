package cache

import (
	"context"

	"github.com/streamingfast/substreams/block"
	"github.com/streamingfast/substreams/manifest"
	pbindex "github.com/streamingfast/substreams/pb/sf/substreams/index/v1"
	pbsubstreams "github.com/streamingfast/substreams/pb/sf/substreams/v1"
	"github.com/streamingfast/substreams/storage/execout"
	pboutput "github.com/streamingfast/substreams/storage/execout/pb"
	"github.com/streamingfast/substreams/storage/index"
	sym "github.com/streamingfast/substreams/zz_verifsym"
	"go.uber.org/zap"
	"google.golang.org/protobuf/proto"
)

var c15IdxKeys = []string{"a", "b"}

// VerifC15IndexBuild: the index files built at the end of a segment
// (Engine.EndOfStream) hold, per index module and key, exactly the blocks on
// which that module emitted that key — also when several index modules are
// built by the same job — and read back unchanged through File.Save / Load.
func VerifC15IndexBuild() {
	manifest.TestUseSimpleHash = true
	nMods := sym.Param("MODULES", 2)
	nBlocks := sym.Param("BLOCKS", 2)
	mem := sym.NewMemStore()
	logger := zap.NewNop()
	var mods []*pbsubstreams.Module
	hashes := manifest.NewModuleHashes()
	for m := 0; m < nMods; m++ {
		mod := &pbsubstreams.Module{Name: "idx" + string(rune('0'+m)), Kind: &pbsubstreams.Module_KindBlockIndex_{KindBlockIndex: &pbsubstreams.Module_KindBlockIndex{OutputType: "proto:sf.substreams.index.v1.Keys"}}}
		mods = append(mods, mod)
		if _, err := hashes.HashModule(&pbsubstreams.Modules{Modules: mods}, mod, nil); err != nil {
			sym.Unreachable("hash-ok")
			return
		}
	}
	configs, err := execout.NewConfigs(mem, mods, hashes, 8, 0, logger)
	if err != nil {
		sym.Unreachable("configs-ok")
		return
	}
	rng := block.NewRange(0, 8)
	writers := map[string]*execout.Writer{}
	idxWriters := map[string]*index.Writer{}
	files := map[string]*index.File{}
	// emitted[m][b][k]: module m emitted key k at its b-th block, whose number is nums[m][b]
	emitted := make([][][]bool, nMods)
	nums := make([][]uint64, nMods)
	for m, mod := range mods {
		w := execout.NewWriter(0, 8, mod.Name, configs, true)
		emitted[m] = make([][]bool, nBlocks)
		nums[m] = make([]uint64, nBlocks)
		for b := 0; b < nBlocks; b++ {
			num := uint64(b) + uint64(sym.Choice("block-offset", 2))*4 // blocks 0..1 or 4..5
			nums[m][b] = num
			emitted[m][b] = make([]bool, len(c15IdxKeys))
			var keys []string
			for k, key := range c15IdxKeys {
				if sym.Choice("emits", 2) == 1 {
					emitted[m][b][k] = true
					keys = append(keys, key)
				}
			}
			payload, err := proto.Marshal(&pbindex.Keys{Keys: keys})
			if err != nil {
				sym.Unreachable("marshal-ok")
				return
			}
			id := string(rune('A'+m)) + string(rune('0'+b))
			w.CurrentFile.Kv[id] = &pboutput.Item{BlockNum: num, BlockId: id, Payload: payload}
		}
		writers[mod.Name] = w
		f, err := index.NewFile(mem, hashes.Get(mod.Name), mod.Name, logger, rng)
		if err != nil {
			sym.Unreachable("index-file-ok")
			return
		}
		files[mod.Name] = f
		idxWriters[mod.Name] = index.NewWriter(f)
	}
	if sym.Param("FAULTS", 0) == 1 {
		// the object store fails the first write attempts after having read the content
		mem.FailNextWrites(sym.Choice("failed-writes", 3))
	}
	eng, err := NewEngine(context.Background(), writers, "sf.test.Block", nil, idxWriters)
	if err != nil {
		sym.Unreachable("engine-ok")
		return
	}
	if err := eng.EndOfStream(nil); err != nil {
		sym.Unreachable("end-of-stream-ok")
		return
	}
	sym.Reach("built")

	check := func(f *index.File, m int, label string) {
		for k, key := range c15IdxKeys {
			for blk := uint64(0); blk < 8; blk++ {
				want := false
				for b := 0; b < nBlocks; b++ {
					if nums[m][b] == blk && emitted[m][b][k] {
						want = true
					}
				}
				bm, ok := f.Indices[key]
				got := ok && bm.Contains(blk)
				sym.Assert(got == want, label)
			}
		}
		for key := range f.Indices {
			sym.Assert(key == "a" || key == "b", label+"-only-emitted-keys")
		}
	}
	for m, mod := range mods {
		check(files[mod.Name], m, "index-holds-exactly-the-blocks-where-the-module-emitted-the-key")
		// what a later request loads from the file is the same
		back, err := index.NewFile(mem, hashes.Get(mod.Name), mod.Name, logger, rng)
		if err != nil {
			sym.Unreachable("index-file-ok")
			return
		}
		if err := back.Load(context.Background()); err != nil {
			sym.Unreachable("index-file-loads")
			return
		}
		check(back, m, "loaded-index-holds-exactly-the-blocks-where-the-module-emitted-the-key")
	}
	sym.Reach("checked")
}
