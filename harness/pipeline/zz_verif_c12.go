package pipeline

import (
	"context"
	"errors"

	"github.com/streamingfast/substreams/manifest"
	"github.com/streamingfast/substreams/orchestrator/plan"
	pbsubstreamsrpc "github.com/streamingfast/substreams/pb/sf/substreams/rpc/v2"
	pbsubstreams "github.com/streamingfast/substreams/pb/sf/substreams/v1"
	"github.com/streamingfast/substreams/pipeline/exec"
	sym "github.com/streamingfast/substreams/zz_verifsym"
)

func c12Source() *pbsubstreams.Module_Input {
	return &pbsubstreams.Module_Input{Input: &pbsubstreams.Module_Input_Source_{Source: &pbsubstreams.Module_Input_Source{Type: "sf.test.Block"}}}
}

func c12StoreIn(name string) *pbsubstreams.Module_Input {
	return &pbsubstreams.Module_Input{Input: &pbsubstreams.Module_Input_Store_{Store: &pbsubstreams.Module_Input_Store{ModuleName: name, Mode: pbsubstreams.Module_Input_Store_GET}}}
}

func c12MapIn(name string) *pbsubstreams.Module_Input {
	return &pbsubstreams.Module_Input{Input: &pbsubstreams.Module_Input_Map_{Map: &pbsubstreams.Module_Input_Map{ModuleName: name}}}
}

func c12Map(name string, init uint64, in ...*pbsubstreams.Module_Input) *pbsubstreams.Module {
	return &pbsubstreams.Module{Name: name, InitialBlock: init, Inputs: in,
		Kind: &pbsubstreams.Module_KindMap_{KindMap: &pbsubstreams.Module_KindMap{OutputType: "proto:x"}}}
}

func c12Store(name string, init uint64, in ...*pbsubstreams.Module_Input) *pbsubstreams.Module {
	return &pbsubstreams.Module{Name: name, InitialBlock: init, Inputs: in,
		Kind: &pbsubstreams.Module_KindStore_{KindStore: &pbsubstreams.Module_KindStore{UpdatePolicy: pbsubstreams.Module_KindStore_UPDATE_POLICY_SET, ValueType: "string"}}}
}

// c12Graph builds one of the module graph shapes; returns the modules, the
// output module name, its initial block and the initial blocks of the stores
// the output depends on.
func c12Graph(shape int) (mods *pbsubstreams.Modules, out string, outInit uint64, storeInits []uint64) {
	ia, ib, ic, im := sym.U64("initA"), sym.U64("initB"), sym.U64("initC"), sym.U64("initOut")
	const lim = 1 << 40
	sym.Assume(ia <= lim)
	sym.Assume(ib <= lim)
	sym.Assume(ic <= lim)
	sym.Assume(im <= lim)
	var list []*pbsubstreams.Module
	switch shape {
	case 0: // map only
		list = []*pbsubstreams.Module{c12Map("out", im, c12Source())}
	case 1: // map <- store A
		list = []*pbsubstreams.Module{c12Store("A", ia, c12Source()), c12Map("out", im, c12Source(), c12StoreIn("A"))}
		storeInits = []uint64{ia}
	case 2: // map <- B <- A
		list = []*pbsubstreams.Module{c12Store("A", ia, c12Source()), c12Store("B", ib, c12Source(), c12StoreIn("A")), c12Map("out", im, c12Source(), c12StoreIn("B"))}
		storeInits = []uint64{ia, ib}
	case 3: // map <- {A, B}
		list = []*pbsubstreams.Module{c12Store("A", ia, c12Source()), c12Store("B", ib, c12Source()), c12Map("out", im, c12Source(), c12StoreIn("A"), c12StoreIn("B"))}
		storeInits = []uint64{ia, ib}
	case 4: // map <- C <- {A, B}, listed in another order
		list = []*pbsubstreams.Module{c12Map("out", im, c12Source(), c12StoreIn("C")), c12Store("C", ic, c12Source(), c12StoreIn("A"), c12StoreIn("B")), c12Store("B", ib, c12Source()), c12Store("A", ia, c12Source())}
		storeInits = []uint64{ia, ib, ic}
	case 5: // output is a store at the end of a chain of three
		list = []*pbsubstreams.Module{c12Store("A", ia, c12Source()), c12Store("B", ib, c12Source(), c12StoreIn("A")), c12Store("out", im, c12Source(), c12StoreIn("B"))}
		storeInits = []uint64{ia, ib, im}
	case 6: // map <- map m1 <- store A ; plus an unrelated store Z that must not count
		list = []*pbsubstreams.Module{c12Store("Z", ic, c12Source()), c12Store("A", ia, c12Source()), c12Map("m1", ib, c12Source(), c12StoreIn("A")), c12Map("out", im, c12MapIn("m1"))}
		storeInits = []uint64{ia}
	}
	return &pbsubstreams.Modules{Modules: list, Binaries: []*pbsubstreams.Binary{{Type: "wasm/rust-v1", Content: []byte{1}}}}, "out", im, storeInits
}

// shapes in order of priority (quick tiers explore a prefix of this list)
var c12ShapeOrder = []int{2, 0, 1, 6, 3, 4, 5}

var c12Sizes = []uint64{10, 3, 2, 4, 5, 6, 7, 8, 9, 11, 12, 100, 1000}

// VerifC12Plan: BuildRequestDetails + NewOutputModuleGraph + BuildTier1RequestPlan
// (glued as Tier1Service.blocks does) cover [start, stop) exactly.
func VerifC12Plan() {
	manifest.TestUseSimpleHash = true
	shape := c12ShapeOrder[sym.Choice("shape", sym.Param("SHAPES", 7))]
	mods, outName, outInit, storeInits := c12Graph(shape)
	prod := sym.Choice("production", 2) == 1
	size := c12Sizes[sym.Choice("size", sym.Param("SIZES", len(c12Sizes)))]

	const lim = 1 << 40
	start := sym.I64("start")
	stop := sym.U64("stop")
	sym.Assume(start >= 0)
	sym.Assume(start <= lim)
	sym.Assume(stop <= lim)
	sym.Assume(sym.Or(stop == 0, stop > uint64(start)))

	libKnown := sym.Choice("lib-known", 2) == 1
	lib := sym.U64("lib")
	sym.Assume(lib <= lim)
	getLib := func() (uint64, error) {
		if !libKnown {
			return 0, errors.New("no final block")
		}
		return lib, nil
	}
	getHead := func() (uint64, error) { return 0, errors.New("unused") }

	request := &pbsubstreamsrpc.Request{StartBlockNum: start, StopBlockNum: stop, Modules: mods, OutputModule: outName, ProductionMode: prod}

	execGraph, err := exec.NewOutputModuleGraph(outName, prod, mods, 0)
	if err != nil {
		sym.Reach("graph-rejected")
		return // invalid module graph: rejected before planning (C14/C17)
	}

	req, undo, err := BuildRequestDetails(context.Background(), request, getLib, nil, getHead, size)
	if err != nil {
		sym.Reach("details-error")
		// the only legitimate error without cursor: production, no final block, no stop block
		sym.Assert(sym.And(prod && !libKnown, stop == 0), "details-error-only-when-unresolvable")
		return
	}
	sym.Assert(undo == nil, "no-undo-without-cursor")
	S, H, G, E := req.ResolvedStartBlockNum, req.LinearHandoffBlockNum, req.LinearGateBlockNum, req.StopBlockNum
	sym.Observe("S", S)
	sym.Observe("H", H)
	sym.Observe("G", G)
	sym.Assert(S == uint64(start), "start-resolved")
	sym.Assert(E == stop, "stop-kept")
	// outputs are gated at the start block: linear blocks flow from H, so the effective gate is max(G, H)
	sym.Assert(max(G, H) == max(S, H), "outputs-gated-at-the-start-block")

	// glue of Tier1Service.blocks (mirrored)
	sym.Assert(!sym.And(S == E, E != 0), "start-equals-stop-excluded-by-quantifier")
	verr := execGraph.ValidateRequestStartBlock(S)
	sym.Assert((verr != nil) == (S < outInit), "start-below-output-init-rejected")
	if verr != nil {
		sym.Reach("start-rejected")
		return
	}
	scheduleStores := execGraph.StagedUsedModules()[0].LastLayer().IsStoreLayer()
	sym.Assert(scheduleStores == (len(storeInits) > 0), "schedule-stores-iff-stores")
	var lowestStoresInitBlock uint64
	if scheduleStores {
		lowestStoresInitBlock = *execGraph.LowestStoresInitBlock()
		want := storeInits[0]
		for _, x := range storeInits[1:] {
			want = min(want, x)
		}
		sym.Assert(lowestStoresInitBlock == want, "lowest-store-init")
	}
	p, err := plan.BuildTier1RequestPlan(req.ProductionMode, size, execGraph.LowestInitBlock(), lowestStoresInitBlock, S, H, E, scheduleStores)
	if err != nil {
		sym.Reach("plan-error")
		sym.Assert(S < execGraph.LowestInitBlock(), "plan-error-only-below-lowest-init")
		return
	}
	sym.Reach("plan")

	// stores are built exactly up to the hand-off
	needStores := false
	for _, x := range storeInits {
		needStores = sym.Or(needStores, x < H)
	}
	sym.Assert((p.BuildStores != nil) == needStores, "build-stores-iff-store-below-handoff")
	if p.BuildStores != nil {
		sym.Reach("build-stores")
		sym.Assert(p.BuildStores.StartBlock == lowestStoresInitBlock, "build-stores-start")
		sym.Assert(p.BuildStores.ExclusiveEndBlock == H, "build-stores-end-is-handoff")
		sym.Assert(H%size == 0, "handoff-on-boundary-when-stores-backfilled")
		seg := p.StoresSegmenter()
		sym.Assert(seg.FirstIndex() <= seg.LastIndex(), "stores-segmenter-non-empty")
		sym.Assert(seg.Range(seg.FirstIndex()) != nil, "stores-segmenter-first-range")
	}

	if prod && S < H {
		sym.Reach("prod-backfill")
		if p.ReadExecOut == nil || p.WriteExecOut == nil {
			sym.Unreachable("exec-out-ranges-present")
			return
		}
		readEnd := sym.IteU64(sym.And(E != 0, E < H), E, H)
		sym.Assert(p.ReadExecOut.StartBlock == S, "read-start")
		sym.Assert(p.ReadExecOut.ExclusiveEndBlock == readEnd, "read-end")
		sym.Assert(p.WriteExecOut.ExclusiveEndBlock == H, "write-end-is-handoff")
		sym.Assert(p.WriteExecOut.StartBlock <= S, "write-start-covers-start")
		sym.Assert(sym.Or(p.WriteExecOut.StartBlock%size == 0, p.WriteExecOut.StartBlock == execGraph.LowestInitBlock()), "write-start-aligned")
		sym.Assert(S-p.WriteExecOut.StartBlock < size, "write-start-same-segment")
		sym.Assert(H%size == 0, "handoff-on-boundary-when-outputs-backfilled")
		ws := p.WriteOutSegmenter()
		sym.Assert(ws.FirstIndex() <= ws.LastIndex(), "write-segmenter-non-empty")
		sym.Assert(ws.Range(ws.FirstIndex()) != nil, "write-segmenter-first-range")
		rs := p.ReadOutSegmenter(outInit)
		sym.Assert(rs.FirstIndex() <= rs.LastIndex(), "read-segmenter-non-empty")
		bs := p.BackprocessSegmenter()
		sym.Assert(bs.FirstIndex() <= bs.LastIndex(), "backprocess-segmenter-non-empty")
	} else {
		sym.Assert(p.ReadExecOut == nil, "no-read-range")
		sym.Assert(p.WriteExecOut == nil, "no-write-range")
		// nothing is served from cache: linear processing must reach back to the start
		sym.Assert(H <= S, "handoff-not-above-start-without-backfill")
	}

	// linear range
	wantLinear := sym.Or(E == 0, H < E)
	sym.Assert((p.LinearPipeline != nil) == wantLinear, "linear-iff-handoff-below-stop")
	if p.LinearPipeline != nil {
		sym.Assert(p.LinearPipeline.StartBlock == H, "linear-start-is-handoff")
		sym.Assert(p.LinearPipeline.ExclusiveEndBlock == E, "linear-end-is-stop")
	}

	// exact cover of [S,E) by read range + gated linear range, for a probe block
	x := sym.U64("x")
	belowStop := sym.Or(E == 0, x < E)
	inReq := sym.And(x >= S, belowStop)
	inRead := false
	if p.ReadExecOut != nil {
		inRead = sym.And(x >= p.ReadExecOut.StartBlock, x < p.ReadExecOut.ExclusiveEndBlock)
	}
	inLinear := false
	if p.LinearPipeline != nil {
		inLinear = sym.And(x >= G, belowStop)
	}
	sym.Assert(inReq == sym.Or(inRead, inLinear), "cover-exact")
	sym.Assert(!sym.And(inRead, inLinear), "cover-no-overlap")

	// the segmenter the scheduler draws its jobs from hands out a segment for every
	// block that has to be back-filled (stores to build, outputs to write)
	if p.RequiresParallelProcessing() {
		inBack := false
		if p.BuildStores != nil {
			inBack = sym.Or(inBack, sym.And(x >= p.BuildStores.StartBlock, x < p.BuildStores.ExclusiveEndBlock))
		}
		if p.WriteExecOut != nil {
			inBack = sym.Or(inBack, sym.And(x >= p.WriteExecOut.StartBlock, x < p.WriteExecOut.ExclusiveEndBlock))
		}
		if inBack {
			sym.Reach("backfilled-block")
			bs := p.BackprocessSegmenter()
			i := bs.IndexForStartBlock(x)
			sym.Assert(sym.And(i >= bs.FirstIndex(), i <= bs.LastIndex()), "job-segments-cover-every-backfilled-block")
			if r := bs.Range(i); r != nil {
				sym.Assert(sym.And(x >= r.StartBlock, x < r.ExclusiveEndBlock), "job-segment-contains-the-backfilled-block")
			}
		}
	}
}
