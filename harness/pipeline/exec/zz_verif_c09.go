package exec

import (
	"context"

	"github.com/streamingfast/substreams/metrics"
	pbsubstreams "github.com/streamingfast/substreams/pb/sf/substreams/v1"
	"github.com/streamingfast/substreams/reqctx"
	"github.com/streamingfast/substreams/storage/execout"
	"github.com/streamingfast/substreams/storage/store"
	sym "github.com/streamingfast/substreams/zz_verifsym"
	"go.uber.org/zap"
	"google.golang.org/protobuf/proto"
)

var c09Keys = []string{"a", "ab", "b"}
var c09Prefixes = []string{"a", "ab", "b", ""}

type c09Op struct {
	del bool
	key int
	ord uint64
	val []byte
}

func c09Record(s store.Store, appendPolicy bool, o c09Op) {
	switch {
	case o.del:
		s.DeletePrefix(o.ord, c09Prefixes[o.key])
	case appendPolicy:
		s.Append(o.ord, c09Keys[o.key], o.val)
	default:
		s.SetBytes(o.ord, c09Keys[o.key], o.val)
	}
}

func c09Content(s store.Store) (keys []string, vals [][]byte) {
	for _, k := range c09Keys {
		if v, ok := s.GetLast(k); ok {
			keys = append(keys, k)
			vals = append(vals, append([]byte(nil), v...))
		}
	}
	return
}

// VerifC09Executor: the operation log a store executor writes to the
// cached-output file (StoreModuleExecutor.wrapDeltasAndOps), replayed by the
// cached branch (applyCachedOutput) into a store in the same pre-block state,
// gives the same deltas and the same content as the original execution — with
// the executor's own order of flush / read-log, arbitrary ordinals, full and
// partial stores.
func VerifC09Executor() {
	appendPolicy := sym.Param("APPEND", 0) == 1
	partial := sym.Param("PARTIAL", 0) == 1
	nBlocks := sym.Param("BLOCKS", 1)
	maxOps := sym.Param("OPS", 2)
	policy := pbsubstreams.Module_KindStore_UPDATE_POLICY_SET
	if appendPolicy {
		policy = pbsubstreams.Module_KindStore_UPDATE_POLICY_APPEND
	}
	cfg, err := store.NewConfig("s", 0, "h", policy, "string", sym.NewMemStore())
	if err != nil {
		sym.Unreachable("config-ok")
		return
	}
	var a, b store.Store
	if partial {
		a, b = cfg.NewPartialKV(100, zap.NewNop()), cfg.NewPartialKV(100, zap.NewNop())
	} else {
		a, b = cfg.NewFullKV(zap.NewNop()), cfg.NewFullKV(zap.NewNop())
	}
	ctx := reqctx.WithReqStats(context.Background(), metrics.NewReqStats(&metrics.Config{}, zap.NewNop()))
	orig := NewStoreModuleExecutor(NewBaseExecutor(ctx, "s", 0, nil, false, nil, nil, "", nil), a.(store.DeltaAccessor))
	cached := NewStoreModuleExecutor(NewBaseExecutor(ctx, "s", 0, nil, false, nil, nil, "", nil), b.(store.DeltaAccessor))

	if sym.Param("PRESTATE", 0) == 1 {
		// the same pre-block content in both stores, built in opposite key orders: nothing a
		// store reports may depend on the iteration order of its map (Go randomises it; the
		// executor iterates in insertion order, so opposite orders stand for "any two orders")
		for i, k := range c09Keys {
			a.SetBytes(uint64(i+1), k, []byte{byte('0' + i)})
			b.SetBytes(uint64(len(c09Keys)-i), k, []byte{byte('0' + i)})
		}
		if a.Flush() != nil || b.Flush() != nil {
			sym.Unreachable("pre-state-ok")
			return
		}
		a.Reset()
		b.Reset()
	}
	for blk := 0; blk < nBlocks; blk++ {
		n := 1 + sym.Choice("nops", maxOps)
		for i := 0; i < n; i++ {
			var o c09Op
			o.ord = sym.U64("ord")
			if sym.Choice("delete", 2) == 1 {
				o.del = true
				o.key = sym.Choice("prefix", len(c09Prefixes))
			} else {
				o.key = sym.Choice("key", len(c09Keys))
				o.val = sym.BytesN("val", 1)
			}
			c09Record(a, appendPolicy, o)
		}
		liveBytes, logForFiles, out, err := orig.wrapDeltasAndOps()
		if err != nil {
			sym.Unreachable("original-execution-ok")
			return
		}
		// the cached branch of RunModule: the block's entry in the cached-output file is the log
		buf, err := execout.NewBuffer("sf.test.Block", nil, &pbsubstreams.Clock{Number: uint64(blk + 1), Id: "b"})
		if err != nil {
			sym.Unreachable("buffer-ok")
			return
		}
		buf.Set("s", logForFiles)
		replayOut, replayBytes, _, skipped, err := RunModule(ctx, cached, buf)
		if err != nil || skipped {
			sym.Unreachable("replay-ok")
			return
		}
		sym.Reach("replayed")
		da, db := out.GetStoreDeltas().GetStoreDeltas(), b.GetDeltas()
		if !partial {
			// what downstream modules and the client get from the cached branch: the same deltas,
			// as a message and as bytes
			if replayOut == nil {
				sym.Unreachable("cached-branch-returns-the-store-deltas")
				return
			}
			dr := replayOut.GetStoreDeltas().GetStoreDeltas()
			sym.Assert(len(dr) == len(da), "cached-branch-same-delta-count")
			liveMsg, replayMsg := &pbsubstreams.StoreDeltas{}, &pbsubstreams.StoreDeltas{}
			if proto.Unmarshal(liveBytes, liveMsg) != nil || proto.Unmarshal(replayBytes, replayMsg) != nil {
				sym.Unreachable("delta-bytes-decode")
				return
			}
			sym.Assert(len(liveMsg.StoreDeltas) == len(da), "live-delta-bytes-hold-the-deltas")
			sym.Assert(len(replayMsg.StoreDeltas) == len(da), "cached-branch-delta-bytes-hold-the-deltas")
			if len(replayMsg.StoreDeltas) == len(da) {
				for i := range da {
					sym.Assert(replayMsg.StoreDeltas[i].Key == da[i].Key && replayMsg.StoreDeltas[i].Operation == da[i].Operation && replayMsg.StoreDeltas[i].Ordinal == da[i].Ordinal, "cached-branch-delta-bytes-same-deltas")
				}
			}
		}
		sym.Assert(len(da) == len(db), "replayed-log-same-delta-count")
		if len(da) == len(db) {
			for i := range da {
				sym.Assert(da[i].Operation == db[i].Operation, "replayed-log-same-delta-operation")
				sym.Assert(da[i].Ordinal == db[i].Ordinal, "replayed-log-same-delta-ordinal")
				sym.Assert(da[i].Key == db[i].Key, "replayed-log-same-delta-key")
				sym.Assert(sym.EqBytes(da[i].OldValue, db[i].OldValue), "replayed-log-same-delta-old-value")
				sym.Assert(sym.EqBytes(da[i].NewValue, db[i].NewValue), "replayed-log-same-delta-new-value")
			}
		}
		ka, va := c09Content(a)
		kb, vb := c09Content(b)
		sym.Assert(len(ka) == len(kb), "replayed-log-same-key-count")
		if len(ka) == len(kb) {
			for i := range ka {
				sym.Assert(ka[i] == kb[i], "replayed-log-same-keys")
				sym.Assert(sym.EqBytes(va[i], vb[i]), "replayed-log-same-values")
			}
		}
		a.Reset()
		b.Reset()
	}
}
