package exec

import (
	"github.com/streamingfast/substreams/manifest"
	pbsubstreams "github.com/streamingfast/substreams/pb/sf/substreams/v1"
	sym "github.com/streamingfast/substreams/zz_verifsym"
)

// VerifC06ChainIndependent: the identifiers the execution graph uses for its
// caches are the package-level ones — the same function of the module
// definitions whatever the chain's first streamable block — and building the
// graph leaves the request's modules as they were.
func VerifC06ChainIndependent() {
	manifest.TestUseSimpleHash = false
	src := func() *pbsubstreams.Module_Input {
		return &pbsubstreams.Module_Input{Input: &pbsubstreams.Module_Input_Source_{Source: &pbsubstreams.Module_Input_Source{Type: "sf.test.Block"}}}
	}
	storeIn := func(n string) *pbsubstreams.Module_Input {
		return &pbsubstreams.Module_Input{Input: &pbsubstreams.Module_Input_Store_{Store: &pbsubstreams.Module_Input_Store{ModuleName: n, Mode: pbsubstreams.Module_Input_Store_GET}}}
	}
	inits := []uint64{0, 5, 10, 20}
	ia := inits[sym.Choice("init-a", len(inits))]
	ib := inits[sym.Choice("init-b", len(inits))]
	mods := &pbsubstreams.Modules{
		Modules: []*pbsubstreams.Module{
			{Name: "a", InitialBlock: ia, BinaryEntrypoint: "a", Inputs: []*pbsubstreams.Module_Input{src()}, Kind: &pbsubstreams.Module_KindStore_{KindStore: &pbsubstreams.Module_KindStore{UpdatePolicy: pbsubstreams.Module_KindStore_UPDATE_POLICY_SET, ValueType: "string"}}},
			{Name: "b", InitialBlock: ib, BinaryEntrypoint: "b", Inputs: []*pbsubstreams.Module_Input{src(), storeIn("a")}, Kind: &pbsubstreams.Module_KindMap_{KindMap: &pbsubstreams.Module_KindMap{OutputType: "proto:x"}}},
		},
		Binaries: []*pbsubstreams.Binary{{Type: "wasm/rust-v1", Content: []byte{sym.Byte("code")}}},
	}
	// package-level identifiers (what `substreams info` and the tools compute)
	mg, err := manifest.NewModuleGraph(mods.Modules)
	if err != nil {
		sym.Unreachable("module-graph-ok")
		return
	}
	pkg := manifest.NewModuleHashes()
	want := map[string]string{}
	for _, m := range mods.Modules {
		if _, err := pkg.HashModule(mods, m, mg); err != nil {
			sym.Unreachable("package-hash-ok")
			return
		}
		want[m.Name] = pkg.Get(m.Name)
	}
	fsb := []uint64{0, 10}[sym.Choice("first-streamable-block", 2)]
	g, err := NewOutputModuleGraph("b", sym.Choice("production", 2) == 1, mods, fsb)
	if err != nil {
		sym.Reach("graph-rejected")
		return
	}
	for _, m := range mods.Modules {
		sym.Assert(sym.EqStr(g.ModuleHashes().Get(m.Name), want[m.Name]), "graph-identifier-is-the-package-identifier")
	}
	sym.Assert(mods.Modules[0].InitialBlock == ia && mods.Modules[1].InitialBlock == ib, "request-modules-left-unchanged")
	sym.Reach("compared")
}
