package exec

import (
	"github.com/streamingfast/substreams/manifest"
	pbsubstreams "github.com/streamingfast/substreams/pb/sf/substreams/v1"
	sym "github.com/streamingfast/substreams/zz_verifsym"
)

const (
	c14Map = iota
	c14Store
	c14Index
)

type c14Mod struct {
	kind      int
	init      uint64
	source    bool
	params    bool
	deps      []int // map/store inputs (lower indexes)
	filter    int   // block filter onto an index module, -1 none
	nInputs   int
	depsModes []int
}

var c14Names = []string{"m0", "m1", "m2", "m3", "m4"}

func c14Build(n int) ([]*c14Mod, *pbsubstreams.Modules) {
	mods := make([]*c14Mod, n)
	var list []*pbsubstreams.Module
	withModes := sym.Param("MODES", 0) == 1
	withParams := sym.Param("PARAMS", 1) == 1
	maxEdges := sym.Param("MAXEDGES", 99)
	edges := 0
	for i := 0; i < n; i++ {
		m := &c14Mod{filter: -1}
		m.kind = sym.Choice("kind", 3)
		m.init = sym.U64("init")
		sym.Assume(m.init <= 1<<40)
		pm := &pbsubstreams.Module{Name: c14Names[i], InitialBlock: m.init}
		switch m.kind {
		case c14Map:
			pm.Kind = &pbsubstreams.Module_KindMap_{KindMap: &pbsubstreams.Module_KindMap{OutputType: "proto:x"}}
		case c14Store:
			pm.Kind = &pbsubstreams.Module_KindStore_{KindStore: &pbsubstreams.Module_KindStore{UpdatePolicy: pbsubstreams.Module_KindStore_UPDATE_POLICY_SET, ValueType: "string"}}
		case c14Index:
			pm.Kind = &pbsubstreams.Module_KindBlockIndex_{KindBlockIndex: &pbsubstreams.Module_KindBlockIndex{OutputType: "proto:sf.substreams.index.v1.Keys"}}
		}
		if withParams && sym.Choice("params", 2) == 1 {
			m.params = true
			// a params value is free text: it may be spelled like the name of a module
			val := "p"
			if i > 0 && sym.Choice("params-value", sym.Param("PVALS", 2)) == 1 {
				val = c14Names[i-1]
			}
			pm.Inputs = append(pm.Inputs, &pbsubstreams.Module_Input{Input: &pbsubstreams.Module_Input_Params_{Params: &pbsubstreams.Module_Input_Params{Value: val}}})
		}
		if sym.Choice("source", 2) == 1 {
			m.source = true
			pm.Inputs = append(pm.Inputs, &pbsubstreams.Module_Input{Input: &pbsubstreams.Module_Input_Source_{Source: &pbsubstreams.Module_Input_Source{Type: "sf.test.Block"}}})
		}
		for j := 0; j < i; j++ {
			if edges >= maxEdges {
				break
			}
			switch mods[j].kind {
			case c14Index:
				if m.filter < 0 && sym.Choice("filter", 2) == 1 {
					m.filter = j
					edges++
					pm.BlockFilter = &pbsubstreams.Module_BlockFilter{Module: c14Names[j], Query: &pbsubstreams.Module_BlockFilter_QueryString{QueryString: "a"}}
				}
			case c14Map:
				if sym.Choice("edge", 2) == 1 {
					m.deps = append(m.deps, j)
					edges++
					pm.Inputs = append(pm.Inputs, &pbsubstreams.Module_Input{Input: &pbsubstreams.Module_Input_Map_{Map: &pbsubstreams.Module_Input_Map{ModuleName: c14Names[j]}}})
				}
			case c14Store:
				if sym.Choice("edge", 2) == 1 {
					m.deps = append(m.deps, j)
					edges++
					mode := pbsubstreams.Module_Input_Store_GET
					if withModes && sym.Choice("deltas", 2) == 1 {
						mode = pbsubstreams.Module_Input_Store_DELTAS
					}
					pm.Inputs = append(pm.Inputs, &pbsubstreams.Module_Input{Input: &pbsubstreams.Module_Input_Store_{Store: &pbsubstreams.Module_Input_Store{ModuleName: c14Names[j], Mode: mode}}})
				}
			}
		}
		m.nInputs = len(pm.Inputs)
		mods[i] = m
		list = append(list, pm)
	}
	return mods, &pbsubstreams.Modules{Modules: list, Binaries: []*pbsubstreams.Binary{{Type: "wasm/rust-v1", Content: []byte{1}}}}
}

// VerifC14Stages: every module needed for the output is in exactly one layer,
// strictly after everything it reads from; layers are all-store or store-free;
// store layers close their stage; staging fails exactly when some needed
// module has no input available at its initial block.
func VerifC14Stages() {
	manifest.TestUseSimpleHash = true
	n := sym.Param("MODULES", 3)
	mods, pb := c14Build(n)
	out := sym.Choice("output", n)

	// independent closure of the output module
	need := make([]bool, n)
	var visit func(i int)
	visit = func(i int) {
		if need[i] {
			return
		}
		need[i] = true
		for _, d := range mods[i].deps {
			visit(d)
		}
		if mods[i].filter >= 0 {
			visit(mods[i].filter)
		}
	}
	visit(out)

	// independent restatement of "has an input available at its initial block"
	someInvalid := false
	for i, m := range mods {
		if !need[i] {
			continue
		}
		valid := m.source
		if m.params && m.nInputs == 1 {
			valid = true
		}
		for _, d := range m.deps {
			valid = sym.Or(valid, mods[d].init <= m.init)
		}
		someInvalid = sym.Or(someInvalid, !valid)
	}

	g, err := NewOutputModuleGraph(c14Names[out], true, pb, 0)
	sym.Assert((err != nil) == someInvalid, "staging-fails-iff-some-module-has-no-input-at-its-initial-block")
	if err != nil {
		sym.Reach("rejected")
		return
	}
	sym.Reach("staged")

	layerOf := make([]int, n)
	for i := range layerOf {
		layerOf[i] = -1
	}
	layer := 0
	stages := g.StagedUsedModules()
	for si, stage := range stages {
		sym.Assert(len(stage) > 0, "stage-non-empty")
		for li, l := range stage {
			sym.Assert(len(l) > 0, "layer-non-empty")
			storeLayer := l[0].GetKindStore() != nil
			for _, m := range l {
				sym.Assert((m.GetKindStore() != nil) == storeLayer, "layer-all-stores-or-store-free")
				idx := -1
				for k := 0; k < n; k++ {
					if c14Names[k] == m.Name {
						idx = k
					}
				}
				if idx < 0 {
					sym.Unreachable("layer-module-known")
					return
				}
				sym.Assert(layerOf[idx] == -1, "module-in-exactly-one-layer")
				layerOf[idx] = layer
			}
			last := li == len(stage)-1
			if storeLayer {
				sym.Assert(last, "store-layer-closes-its-stage")
			} else if last {
				sym.Assert(si == len(stages)-1, "only-final-stage-ends-store-free")
			}
			layer++
		}
	}
	for i, m := range mods {
		sym.Assert((layerOf[i] >= 0) == need[i], "exactly-the-needed-modules-are-staged")
		if layerOf[i] < 0 {
			continue
		}
		for _, d := range m.deps {
			sym.Assert(layerOf[d] >= 0 && layerOf[d] < layerOf[i], "dependency-in-earlier-layer")
		}
		if m.filter >= 0 {
			sym.Assert(layerOf[m.filter] >= 0 && layerOf[m.filter] < layerOf[i], "block-filter-index-in-earlier-layer")
		}
	}
	// derived views
	nStores, nUsed := 0, 0
	for i, m := range mods {
		if need[i] {
			nUsed++
			if m.kind == c14Store {
				nStores++
			}
		}
	}
	sym.Assert(len(g.UsedModules()) == nUsed, "used-modules-count")
	sym.Assert(len(g.Stores()) == nStores, "stores-count")
	sym.Assert(g.OutputModule().Name == c14Names[out], "output-module")
}
