package pipeline

import (
	"context"

	"github.com/streamingfast/bstream"
	"github.com/streamingfast/substreams"
	"github.com/streamingfast/substreams/manifest"
	pbssinternal "github.com/streamingfast/substreams/pb/sf/substreams/intern/v2"
	pbsubstreamsrpc "github.com/streamingfast/substreams/pb/sf/substreams/rpc/v2"
	pbsubstreams "github.com/streamingfast/substreams/pb/sf/substreams/v1"
	"github.com/streamingfast/substreams/pipeline/cache"
	"github.com/streamingfast/substreams/pipeline/exec"
	"github.com/streamingfast/substreams/reqctx"
	"github.com/streamingfast/substreams/storage/execout"
	"github.com/streamingfast/substreams/storage/store"
	sym "github.com/streamingfast/substreams/zz_verifsym"
	"go.uber.org/zap"
	"google.golang.org/protobuf/proto"
)

type c03Op struct {
	del bool
	key int
	ord uint64
	val []byte
}

var c03Keys = []string{"a", "ab"}
var c03Prefixes = []string{"a", "ab"}

type c03Block struct {
	id     string
	height uint64
	parent int // index, -1 = genesis
	ops    []c03Op
	drawn  bool
}

func c03Tree(heights int) []*c03Block {
	var out []*c03Block
	names := []string{"a", "b"}
	for h := 1; h <= heights; h++ {
		for f := 0; f < 2; f++ {
			parent := -1
			if h > 1 {
				parent = (h - 2) * 2 // the "a" block of the previous height
			}
			out = append(out, &c03Block{id: string(rune('0'+h)) + names[f], height: uint64(h), parent: parent})
		}
	}
	return out
}

func c03Draw(b *c03Block, maxOps int) {
	if b.drawn {
		return
	}
	b.drawn = true
	n := 1 + sym.Choice("nops", maxOps)
	for i := 0; i < n; i++ {
		var o c03Op
		o.ord = sym.U64("ord")
		if sym.Choice("delete", 2) == 1 {
			o.del = true
			o.key = sym.Choice("prefix", len(c03Prefixes))
		} else {
			o.key = sym.Choice("key", len(c03Keys))
			o.val = sym.BytesN("val", sym.Choice("vlen", sym.Param("VLENS", 3))) // empty values, creates, grows and shrinks
		}
		b.ops = append(b.ops, o)
	}
}

func c03Exec(s store.Store, b *c03Block) error {
	for _, o := range b.ops {
		if o.del {
			s.DeletePrefix(o.ord, c03Prefixes[o.key])
		} else {
			s.SetBytes(o.ord, c03Keys[o.key], o.val)
		}
	}
	return s.Flush()
}

func c03Clock(b *c03Block) *pbsubstreams.Clock {
	return &pbsubstreams.Clock{Number: b.height, Id: b.id}
}

type c03Msg struct {
	height uint64
	id     string
}

// VerifC03Reorg: after any sequence of new / undo / final / stalled steps that
// a fork resolver can produce, the store equals a fork-free execution of the
// canonical chain and the client, applying the undo rule, holds that chain.
func VerifC03Reorg() {
	heights := sym.Param("HEIGHTS", 2)
	nEvents := sym.Param("EVENTS", 4)
	maxOps := sym.Param("OPS", 1)
	blocks := c03Tree(heights)
	genesis := bstream.NewBlockRef("0", 0)

	cfg, err := store.NewConfig("s", 0, "h", pbsubstreams.Module_KindStore_UPDATE_POLICY_SET, "string", sym.NewMemStore())
	if err != nil {
		sym.Unreachable("config-ok")
		return
	}
	live := cfg.NewFullKV(zap.NewNop())
	storeMap := store.NewMap()
	storeMap.Set(live)

	var client []c03Msg
	undoSignals := 0
	var lastSignal *pbsubstreams.BlockRef
	engine, _ := cache.NewEngine(context.Background(), nil, "sf.test.Block", nil, nil)
	p := &Pipeline{
		forkHandler:     NewForkHandler(),
		stores:          &Stores{StoreMap: storeMap, logger: zap.NewNop()},
		execOutputCache: engine,
		blockStepMap:    map[bstream.StepType]uint64{},
	}
	// the store module "s" feeds the output mapper "out"; blocks below the output gate run
	// silently (start block above the hand-off), reorgs must still revert them
	manifest.TestUseSimpleHash = true
	mods := &pbsubstreams.Modules{Modules: []*pbsubstreams.Module{
		c12Store("s", 0, c12Source()), c12Map("out", 0, c12Source(), c12StoreIn("s")),
	}, Binaries: []*pbsubstreams.Binary{{Type: "wasm/rust-v1", Content: []byte{1}}}}
	graph, err := exec.NewOutputModuleGraph("out", true, mods, 0)
	if err != nil {
		sym.Unreachable("graph-ok")
		return
	}
	p.execGraph = graph
	gate := uint64(sym.Choice("gate", sym.Param("GATES", 1)))
	ctx := reqctx.WithRequest(context.Background(), &reqctx.RequestDetails{ProductionMode: true, LinearGateBlockNum: gate, OutputModule: "out", Modules: mods})
	executor := exec.NewStoreModuleExecutor(exec.NewBaseExecutor(ctx, "s", 0, nil, false, nil, nil, "", nil), live)
	p.respFunc = func(anyResp substreams.ResponseFromAnyTier) error {
		resp, ok := anyResp.(*pbsubstreamsrpc.Response)
		if !ok {
			sym.Unreachable("tier1-response")
			return nil
		}
		if u := resp.GetBlockUndoSignal(); u != nil {
			undoSignals++
			lastSignal = u.LastValidBlock
			if gate > 0 {
				return nil // the client model below is for streams gated at the first block
			}
			// client rule: drop everything above the last valid block
			for len(client) > 0 && client[len(client)-1].height > u.LastValidBlock.Number {
				client = client[:len(client)-1]
			}
			if len(client) > 0 {
				top := client[len(client)-1]
				sym.Assert(top.height == u.LastValidBlock.Number && top.id == u.LastValidBlock.Id, "undo-designates-held-block")
			} else {
				sym.Assert(u.LastValidBlock.Number == 0, "undo-designates-block-before-first")
			}
		}
		return nil
	}
	// the undo handler exactly as Pipeline.Init registers it
	p.forkHandler.registerUndoHandler(func(clock *pbsubstreams.Clock, moduleOutputs []*pbssinternal.ModuleOutput) {
		for _, modOut := range moduleOutputs {
			p.stores.storesHandleUndo(modOut)
		}
	})

	var finals []int // finalized blocks, in order
	var chain []int  // reversible part of the current chain
	lib := uint64(0)
	seen := map[int]bool{}
	reorgTo := -2 // junction of an unfinished undo run (block index, -1 genesis), -2 none
	onChain := func(i int) bool {
		for _, c := range chain {
			if c == i {
				return true
			}
		}
		for _, c := range finals {
			if c == i {
				return true
			}
		}
		return false
	}
	head := func() int {
		if len(chain) > 0 {
			return chain[len(chain)-1]
		}
		if len(finals) > 0 {
			return finals[len(finals)-1]
		}
		return -1
	}
	ref := func(i int) bstream.BlockRef {
		if i < 0 {
			return genesis
		}
		return bstream.NewBlockRef(blocks[i].id, blocks[i].height)
	}

	for e := 0; e < nEvents; e++ {
		// enabled events under the fork resolver's contract
		type ev struct{ kind, blk, junction int }
		var enabled []ev
		if reorgTo == -2 {
			for i, b := range blocks {
				if !onChain(i) && b.parent == head() && b.height > lib {
					enabled = append(enabled, ev{0, i, 0})
				}
			}
			if len(chain) > 0 {
				enabled = append(enabled, ev{2, chain[0], 0})
			}
			for i, b := range blocks {
				if seen[i] && !onChain(i) && b.height <= lib {
					enabled = append(enabled, ev{3, i, 0})
				}
			}
		}
		if len(chain) > 0 {
			h := chain[len(chain)-1]
			// junction: any block of the chain strictly below the head, or the last final block
			var cands []int
			if len(finals) > 0 {
				cands = append(cands, finals[len(finals)-1])
			} else {
				cands = append(cands, -1)
			}
			cands = append(cands, chain[:len(chain)-1]...)
			for _, j := range cands {
				if reorgTo == -2 || reorgTo == j {
					enabled = append(enabled, ev{1, h, j})
				}
			}
		}
		if len(enabled) == 0 {
			break
		}
		x := enabled[sym.Choice("event", len(enabled))]
		b := blocks[x.blk]
		switch x.kind {
		case 0: // new block: what executeModules/applyExecutionResult/handleStepNew do for a store module
			c03Draw(b, maxOps)
			p.insideReorgUpTo = nil
			if err := c03Exec(live, b); err != nil {
				sym.Unreachable("exec-ok")
				return
			}
			// StoreModuleExecutor.wrapDeltasAndOps (mirrored; decided by C09), then the real applyExecutionResult
			deltas := &pbsubstreams.StoreDeltas{StoreDeltas: live.GetDeltas()}
			mo := &pbssinternal.ModuleOutput{ModuleName: "s", Data: &pbssinternal.ModuleOutput_StoreDeltas{StoreDeltas: deltas}}
			data, err := proto.Marshal(deltas)
			if err != nil {
				sym.Unreachable("marshal-ok")
				return
			}
			buf, err := execout.NewBuffer("sf.test.Block", nil, c03Clock(b))
			if err != nil {
				sym.Unreachable("buffer-ok")
				return
			}
			if err := p.applyExecutionResult(ctx, executor, resultObj{output: mo, bytes: data, bytesForFiles: live.ReadOps()}, buf); err != nil {
				sym.Unreachable("apply-execution-result-ok")
				return
			}
			if gate == 0 {
				if len(client) > 0 {
					sym.Assert(client[len(client)-1].height < b.height, "no-two-blocks-at-same-height-without-undo")
				}
				client = append(client, c03Msg{b.height, b.id})
			}
			p.stores.resetStores()
			chain = append(chain, x.blk)
			seen[x.blk] = true
			sym.Reach("new")
		case 1: // undo of the head towards junction
			before := undoSignals
			cursor := &bstream.Cursor{Step: bstream.StepUndo, Block: ref(x.blk), LIB: ref(head0(finals)), HeadBlock: ref(x.blk)}
			if err := p.handleStepUndo(c03Clock(b), cursor, ref(x.junction)); err != nil {
				sym.Unreachable("undo-ok")
				return
			}
			first := reorgTo == -2
			chain = chain[:len(chain)-1]
			if head() == x.junction {
				reorgTo = -2
			} else {
				reorgTo = x.junction
			}
			if first {
				sym.Assert(undoSignals == before+1, "one-undo-signal-per-reorg")
				if undoSignals == before+1 {
					sym.Assert(lastSignal.Id == ref(x.junction).ID() && lastSignal.Number == ref(x.junction).Num(), "undo-signal-designates-junction")
				}
			} else {
				sym.Assert(undoSignals == before, "no-second-undo-signal-in-same-reorg")
			}
			sym.Reach("undo")
		case 2: // final
			if err := p.handleStepFinal(c03Clock(b)); err != nil {
				sym.Unreachable("final-ok")
				return
			}
			finals = append(finals, x.blk)
			chain = chain[1:]
			lib = b.height
			sym.Reach("final")
		case 3: // stalled
			if err := p.handleStepStalled(c03Clock(b)); err != nil {
				sym.Unreachable("stalled-ok")
				return
			}
			seen[x.blk] = false
			sym.Reach("stalled")
		}

		// oracle: a fresh store on which only the canonical chain was executed
		ref0 := cfg.NewFullKV(zap.NewNop())
		canon := append(append([]int(nil), finals...), chain...)
		for _, i := range canon {
			if err := c03Exec(ref0, blocks[i]); err != nil {
				sym.Unreachable("reference-exec-ok")
				return
			}
			ref0.Reset()
		}
		sym.Assert(live.Length() == ref0.Length(), "store-entry-count-equals-canonical")
		for _, k := range c03Keys {
			va, fa := live.GetLast(k)
			vb, fb := ref0.GetLast(k)
			sym.Assert(fa == fb, "store-keys-equal-canonical")
			if fa && fb {
				sym.Assert(sym.EqBytes(va, vb), "store-values-equal-canonical")
			}
		}
		sym.Assert(live.SizeBytes() == ref0.SizeBytes(), "store-size-equals-canonical")
		if reorgTo == -2 && gate == 0 {
			sym.Assert(len(client) == len(canon), "client-holds-canonical-chain-length")
			if len(client) == len(canon) {
				for i, c := range canon {
					sym.Assert(client[i].id == blocks[c].id, "client-holds-canonical-chain")
				}
			}
		}
	}
	sym.Reach("done")
}

func head0(finals []int) int {
	if len(finals) > 0 {
		return finals[len(finals)-1]
	}
	return -1
}
