package work

import (
	"context"
	"errors"
	"io"

	"github.com/streamingfast/dgrpc"
	"go.uber.org/zap"
	"google.golang.org/grpc"
	"google.golang.org/grpc/codes"
	"google.golang.org/grpc/metadata"
	"google.golang.org/grpc/status"

	"github.com/streamingfast/substreams"
	"github.com/streamingfast/substreams/client"
	"github.com/streamingfast/substreams/metrics"
	"github.com/streamingfast/substreams/orchestrator/response"
	"github.com/streamingfast/substreams/orchestrator/stage"
	pbssinternal "github.com/streamingfast/substreams/pb/sf/substreams/intern/v2"
	pbsubstreamsrpc "github.com/streamingfast/substreams/pb/sf/substreams/rpc/v2"
	pbsubstreams "github.com/streamingfast/substreams/pb/sf/substreams/v1"
	"github.com/streamingfast/substreams/reqctx"
	sym "github.com/streamingfast/substreams/zz_verifsym"
)

// One attempt of a segment job as the remote side makes it look.
const (
	c16CallUnavailable = iota // ProcessRange itself fails: worker unavailable
	c16DropUnavailable        // stream dropped mid-way (codes.Unavailable)
	c16Overloaded             // tier2 answers "service currently overloaded"
	c16Internal               // any other transient server-side error
	c16Timeout                // execution timeout (DeadlineExceeded in the text)
	c16Deterministic          // module failed deterministically: InvalidArgument
	c16FailedMsg              // a Failed message (legacy flow)
	c16Completed              // Completed message
	c16CleanEOF               // stream ended cleanly (io.EOF)
	c16Cancelled              // the request's context is cancelled during the attempt
	c16RemoteCanceled         // the remote side ends the stream with Canceled (tier2 shutting down), the request lives on
	c16Outcomes
)

type c16Script struct {
	outcome  []int // per attempt
	updates  []int // update messages sent before the outcome
	attempts int
	cancel   context.CancelFunc
}

type c16Client struct{ s *c16Script }

func (c *c16Client) ProcessRange(ctx context.Context, in *pbssinternal.ProcessRangeRequest, opts ...grpc.CallOption) (grpc.ServerStreamingClient[pbssinternal.ProcessRangeResponse], error) {
	k := c.s.attempts
	c.s.attempts++
	if k >= len(c.s.outcome) {
		sym.Unreachable("more-attempts-than-scripted")
		return nil, status.Error(codes.Unavailable, "script exhausted")
	}
	if c.s.outcome[k] == c16CallUnavailable {
		return nil, status.Error(codes.Unavailable, "connection refused")
	}
	return &c16Stream{s: c.s, k: k, ctx: ctx}, nil
}

type c16Stream struct {
	s    *c16Script
	k    int
	sent int
	ctx  context.Context
}

func (s *c16Stream) Header() (metadata.MD, error) { return metadata.MD{"host": []string{"h"}}, nil }
func (s *c16Stream) Trailer() metadata.MD         { return nil }
func (s *c16Stream) CloseSend() error             { return nil }
func (s *c16Stream) Context() context.Context     { return s.ctx }
func (s *c16Stream) SendMsg(m any) error          { return nil }
func (s *c16Stream) RecvMsg(m any) error          { return nil }

func (s *c16Stream) Recv() (*pbssinternal.ProcessRangeResponse, error) {
	if s.sent < s.s.updates[s.k] {
		s.sent++
		return &pbssinternal.ProcessRangeResponse{Type: &pbssinternal.ProcessRangeResponse_Update{Update: &pbssinternal.Update{ProcessedBlocks: uint64(s.sent)}}}, nil
	}
	switch s.s.outcome[s.k] {
	case c16DropUnavailable:
		return nil, status.Error(codes.Unavailable, "transport is closing")
	case c16Overloaded:
		return nil, status.Error(codes.Unavailable, "service currently overloaded")
	case c16Internal:
		return nil, status.Error(codes.Internal, "unexpected EOF")
	case c16Timeout:
		return nil, status.Error(codes.DeadlineExceeded, "rpc error: code = DeadlineExceeded desc = context deadline exceeded")
	case c16Deterministic:
		return nil, status.Error(codes.InvalidArgument, "step new irr: handler step new: execute modules: deterministic failure")
	case c16FailedMsg:
		return &pbssinternal.ProcessRangeResponse{Type: &pbssinternal.ProcessRangeResponse_Failed{Failed: &pbssinternal.Failed{Reason: "failed"}}}, nil
	case c16Completed:
		return &pbssinternal.ProcessRangeResponse{Type: &pbssinternal.ProcessRangeResponse_Completed{Completed: &pbssinternal.Completed{}}}, nil
	case c16CleanEOF:
		return nil, io.EOF
	case c16Cancelled:
		s.s.cancel()
		return nil, status.Error(codes.Canceled, "context canceled")
	case c16RemoteCanceled:
		return nil, status.Error(codes.Canceled, "context canceled")
	}
	sym.Unreachable("unknown-outcome")
	return nil, io.EOF
}

func c16Transient(o int) bool {
	return o == c16CallUnavailable || o == c16DropUnavailable || o == c16Overloaded || o == c16Internal || o == c16Timeout || o == c16RemoteCanceled
}

// VerifC16Worker: the real RemoteWorker.Work / work retry loop is run against
// every scripted sequence of attempt outcomes (bounded). A job is reported as
// succeeded exactly when transient faults were followed by a completed
// attempt; it is never reported as succeeded after a fault, a deterministic
// failure, a Failed message or a cancellation; a deterministic failure ends
// the job at once with an invalid-argument error; nothing is retried after a
// completed attempt.
func VerifC16Worker() {
	maxAttempts := sym.Param("ATTEMPTS", 4)
	maxUpdates := sym.Param("UPDATES", 1)
	script := &c16Script{}
	n := 1 + sym.Choice("attempts", maxAttempts)
	timeouts := 0
	// every attempt but the last ends in a transient fault (only those are followed by another
	// attempt), the last one in an outcome after which no further attempt is due
	transient := []int{c16CallUnavailable, c16DropUnavailable, c16Overloaded, c16Internal, c16Timeout, c16RemoteCanceled}
	final := []int{c16Deterministic, c16FailedMsg, c16Completed, c16CleanEOF, c16Cancelled}
	for k := 0; k < n; k++ {
		var o int
		if k < n-1 {
			o = transient[sym.Choice("transient-outcome", len(transient))]
		} else {
			o = final[sym.Choice("final-outcome", len(final))]
		}
		script.outcome = append(script.outcome, o)
		script.updates = append(script.updates, sym.Choice("updates", maxUpdates+1))
		if o == c16Timeout {
			timeouts++
		}
	}
	// three execution timeouts are a documented give-up: keep the script below
	sym.Assume(timeouts < 3)
	last := script.outcome[n-1]
	// the script ends with an attempt after which no further attempt is due
	sym.Assume(!c16Transient(last))

	ctx, cancel := context.WithCancel(context.Background())
	script.cancel = cancel
	stats := metrics.NewReqStats(&metrics.Config{}, zap.NewNop())
	stats.RecordStages([]*pbsubstreamsrpc.Stage{{Modules: []string{"m"}}})
	ctx = reqctx.WithReqStats(ctx, stats)
	ctx = reqctx.WithRequest(ctx, &reqctx.RequestDetails{Modules: &pbsubstreams.Modules{}, OutputModule: "m"})
	ctx = reqctx.WithTier2RequestParameters(ctx, reqctx.Tier2RequestParameters{StateBundleSize: 10, BlockType: "sf.test.Block"})

	var sent int
	upstream := response.New(func(resp substreams.ResponseFromAnyTier) error { sent++; return nil })
	factory := func() (pbssinternal.SubstreamsClient, func() error, []grpc.CallOption, client.Headers, error) {
		return &c16Client{s: script}, func() error { return nil }, nil, nil, nil
	}
	w := NewRemoteWorker(factory, zap.NewNop())
	unit := stage.Unit{Segment: 2, Stage: 0}
	msg := w.Work(ctx, unit, 20, []string{"m"}, upstream)()

	sym.Observe("attempts", script.attempts)
	switch m := msg.(type) {
	case MsgJobSucceeded:
		sym.Observe("result", "succeeded")
		sym.Assert(last == c16Completed || last == c16CleanEOF, "success-only-after-a-completed-attempt")
		sym.Assert(m.Unit == unit, "success-names-the-unit")
		sym.Assert(script.attempts == n, "every-scripted-attempt-was-made")
		sym.Reach("succeeded")
	case MsgJobFailed:
		sym.Observe("result", "failed")
		sym.Assert(!(last == c16Completed || last == c16CleanEOF), "transient-faults-then-completion-succeeds")
		sym.Assert(m.Unit == unit, "failure-names-the-unit")
		sym.Assert(m.Error != nil, "failure-carries-an-error")
		if last == c16Deterministic {
			sym.Assert(script.attempts == n, "deterministic-failure-is-not-retried")
			g := dgrpc.AsGRPCError(m.Error)
			sym.Assert(g != nil && g.Code() == codes.InvalidArgument, "deterministic-failure-stays-invalid-argument")
			sym.Reach("deterministic")
		}
		if last == c16Cancelled {
			sym.Assert(errors.Is(m.Error, context.Canceled), "cancelled-job-reports-cancellation")
			sym.Reach("cancelled")
		}
		sym.Reach("failed")
	default:
		sym.Unreachable("work-returns-a-job-message")
	}
}
