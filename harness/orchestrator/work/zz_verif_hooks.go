package work

import "strings"

// VerifFingerprint is an overlay-only accessor (see orchestrator/stage/zz_verif_hooks.go).
func (p *WorkerPool) VerifFingerprint() string {
	var sb strings.Builder
	for _, w := range p.workers {
		sb.WriteByte(byte('0' + int(w.State)))
	}
	if p.started != nil {
		sb.WriteString("r")
	}
	return sb.String()
}

// VerifSkipRampup ends the 4 s worker ramp-up at once (overlay-only): the
// harness must not depend on wall-clock time, natively or symbolically.
func (p *WorkerPool) VerifSkipRampup() {
	for _, w := range p.workers {
		if w.State == WorkerInitialWait {
			w.State = WorkerFree
		}
	}
	p.started = nil
}
