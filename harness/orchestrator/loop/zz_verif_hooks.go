package loop

// Overlay-only read accessor used by the /verif harnesses (not part of /repo).

// VerifErr exposes the error a QuitMsg carries.
func (q QuitMsg) VerifErr() error { return q.err }
