package scheduler

import (
	"context"

	"github.com/streamingfast/substreams/block"
	"github.com/streamingfast/substreams/manifest"
	"github.com/streamingfast/substreams/metrics"
	"github.com/streamingfast/substreams/orchestrator/plan"
	"github.com/streamingfast/substreams/orchestrator/stage"
	pbsubstreams "github.com/streamingfast/substreams/pb/sf/substreams/v1"
	"github.com/streamingfast/substreams/pipeline/exec"
	"github.com/streamingfast/substreams/reqctx"
	"github.com/streamingfast/substreams/storage/execout"
	"github.com/streamingfast/substreams/storage/store"
	sym "github.com/streamingfast/substreams/zz_verifsym"
	"go.uber.org/zap"
)

// VerifC07Scan: the storage scan a tier1 request starts with (the real
// Stages.FetchStoresState) on every subset of the snapshot files of a stage that holds two
// stores, the second of which starts inside a segment (INIT): a unit is found Completed only
// if every store that is live on that segment has its full snapshot there, and PartialPresent
// only if every live store has its partial — otherwise the request would skip a job whose
// result it later fails to load.
func VerifC07Scan() {
	manifest.TestUseSimpleHash = true
	const size = 10
	nSegs := sym.Param("SEGMENTS", 3)
	init := uint64(sym.Param("INIT", 13))
	sa := c05Store("sa", c05Src())
	sb := c05Store("sb", c05Src())
	sb.InitialBlock = init
	mods := &pbsubstreams.Modules{Modules: []*pbsubstreams.Module{sa, sb, c05Map("m", c05Src(), c05StoreIn("sa"), c05StoreIn("sb"))}, Binaries: []*pbsubstreams.Binary{{Type: "wasm/rust-v1", Content: []byte{1}}}}
	execGraph, err := exec.NewOutputModuleGraph("m", true, mods, 0)
	if err != nil {
		sym.Unreachable("graph-ok")
		return
	}
	handoff := uint64(nSegs * size)
	start := uint64(size * sym.Choice("start-segment", nSegs))
	if start < init {
		start = init - init%size + size // the mapper reads sb: the request starts where every input exists
		if start >= handoff {
			return
		}
	}
	reqPlan, err := plan.BuildTier1RequestPlan(true, size, 0, 0, start, handoff, handoff+5, true)
	if err != nil {
		sym.Unreachable("plan-ok")
		return
	}
	mem := sym.NewMemStore()
	logger := zap.NewNop()
	storeConfigs, err := store.NewConfigMap(mem, execGraph.Stores(), execGraph.ModuleHashes(), 0)
	if err != nil {
		sym.Unreachable("store-configs-ok")
		return
	}
	execoutConfigs, err := execout.NewConfigs(mem, execGraph.UsedModules(), execGraph.ModuleHashes(), size, 0, logger)
	if err != nil {
		sym.Unreachable("execout-configs-ok")
		return
	}
	// every subset of the snapshot files: per store and segment on which it is live, the full
	// snapshot up to the segment's end and the partial of the segment (from the store's first
	// block on its first segment)
	inits := []uint64{0, init}
	var full, partial [2][8]bool
	for i, name := range []string{"sa", "sb"} {
		hash := execGraph.ModuleHashes().Get(name)
		for seg := 0; seg < nSegs; seg++ {
			end := uint64((seg + 1) * size)
			if end <= inits[i] {
				continue
			}
			from := uint64(seg * size)
			if from < inits[i] {
				from = inits[i]
			}
			if sym.Choice("full", 2) == 1 {
				full[i][seg] = true
				mem.Put(hash+"/states/"+store.FullStateFileName(block.NewRange(inits[i], end)), []byte{1})
			}
			if sym.Choice("partial", 2) == 1 {
				partial[i][seg] = true
				mem.Put(hash+"/states/"+store.PartialFileName(block.NewRange(from, end)), []byte{1})
			}
			// a leftover of a request that stopped inside the segment: a partial that starts where
			// the segment's partial starts but ends earlier — not the segment's partial (first store;
			// SHORT=1: on the third segment, where both stores are aligned, SHORT=2: on every segment)
			if sh := sym.Param("SHORT", 0); i == 0 && (sh == 2 || (sh == 1 && seg == 2)) && sym.Choice("short-partial", 2) == 1 {
				mem.Put(hash+"/states/"+store.PartialFileName(block.NewRange(from, end-2)), []byte{1})
				sym.Reach("short-partial-present")
			}
		}
	}
	ctx := reqctx.WithRequest(context.Background(), &reqctx.RequestDetails{ResolvedStartBlockNum: start, LinearHandoffBlockNum: handoff, StopBlockNum: handoff + 5, ProductionMode: true, OutputModule: "m", Modules: mods})
	ctx = reqctx.WithReqStats(ctx, metrics.NewReqStats(&metrics.Config{}, logger))
	stages := stage.NewStages(ctx, execGraph, reqPlan, storeConfigs)
	if err := stages.FetchStoresState(ctx, reqPlan.StoresSegmenter(), storeConfigs, execoutConfigs); err != nil {
		sym.Unreachable("fetch-state-ok")
		return
	}
	m := c05Matrix(stages)
	for seg := 0; seg < nSegs; seg++ {
		end := uint64((seg + 1) * size)
		switch c05State(m, 0, seg) {
		case 'C':
			sym.Reach("scan-found-full-snapshots")
			for i := range inits {
				if end > inits[i] {
					sym.Assert(full[i][seg], "scan-completed-only-with-the-full-snapshot-of-every-live-store")
				}
			}
		case 'P':
			sym.Reach("scan-found-partials")
			for i := range inits {
				if end > inits[i] {
					sym.Assert(partial[i][seg], "scan-partial-present-only-with-the-partial-of-every-live-store")
				}
			}
		}
	}
	sym.Reach("scanned")
}
