package scheduler

import (
	"context"
	"sort"
	"strings"

	"github.com/streamingfast/substreams"
	"github.com/streamingfast/substreams/block"
	"github.com/streamingfast/substreams/manifest"
	"github.com/streamingfast/substreams/metrics"
	orchexecout "github.com/streamingfast/substreams/orchestrator/execout"
	"github.com/streamingfast/substreams/orchestrator/loop"
	"github.com/streamingfast/substreams/orchestrator/plan"
	"github.com/streamingfast/substreams/orchestrator/response"
	"github.com/streamingfast/substreams/orchestrator/stage"
	"github.com/streamingfast/substreams/orchestrator/work"
	pbsubstreamsrpc "github.com/streamingfast/substreams/pb/sf/substreams/rpc/v2"
	pbsubstreams "github.com/streamingfast/substreams/pb/sf/substreams/v1"
	"github.com/streamingfast/substreams/pipeline/exec"
	"github.com/streamingfast/substreams/reqctx"
	"github.com/streamingfast/substreams/storage/execout"
	pboutput "github.com/streamingfast/substreams/storage/execout/pb"
	"github.com/streamingfast/substreams/storage/store"
	sym "github.com/streamingfast/substreams/zz_verifsym"
	"go.uber.org/zap"
)

// c04WriteOutput writes the cached-output file a mapper job produces for one
// segment: one item per block, through the real File.Save.
func c04WriteOutput(cfg *execout.Config, seg int, size uint64) error {
	r := block.NewRange(uint64(seg)*size, uint64(seg+1)*size)
	f := cfg.NewFile(r)
	for n := r.StartBlock; n < r.ExclusiveEndBlock; n++ {
		id := "b" + string(rune('0'+n/10)) + string(rune('0'+n%10))
		f.Kv[id] = &pboutput.Item{BlockNum: n, BlockId: id, Payload: []byte{byte(n)}}
	}
	return f.Save(context.Background())
}

// c04MsgKey describes a pending message for the visited-state key.
func c04MsgKey(m loop.Msg) string {
	switch x := m.(type) {
	case work.MsgScheduleNextJob:
		return "sched"
	case work.MsgJobSucceeded:
		return "ok" + string(rune('a'+x.Unit.Stage)) + string(rune('0'+x.Unit.Segment)) + x.Worker.ID()
	case orchexecout.MsgDownloadSegment:
		return "dl"
	case orchexecout.MsgFileDownloaded:
		return "got"
	case orchexecout.MsgFileNotPresent:
		return "none"
	case orchexecout.MsgWalkerCompleted:
		return "wdone"
	case stage.MsgAllStoresCompleted:
		return "stores"
	case loop.QuitMsg:
		return "quit"
	}
	return "?"
}

// VerifC04Loop: the real Scheduler.Update with the real cached-output Walker, a
// mapper-only graph (no merges) and fake workers, driven as the event loop
// drives it: every command Update returns is executed (batches expanded), the
// messages they produce are delivered in every possible order, and mapper jobs
// finish (writing their output file) at every possible moment. Whatever the
// order, the client receives exactly the blocks of the cached-output read
// range, once each and in ascending order, and the loop then quits cleanly.
func VerifC04Loop() {
	manifest.TestUseSimpleHash = true
	nSegs := sym.Param("SEGMENTS", 2)
	nWorkers := sym.Param("WORKERS", 1)
	depth := sym.Param("DEPTH", 40)
	const size = 10

	mods := &pbsubstreams.Modules{Modules: []*pbsubstreams.Module{c05Map("m", c05Src())}, Binaries: []*pbsubstreams.Binary{{Type: "wasm/rust-v1", Content: []byte{1}}}}
	mods.Modules[0].Output = &pbsubstreams.Module_Output{Type: "proto:x"}
	execGraph, err := exec.NewOutputModuleGraph("m", true, mods, 0)
	if err != nil {
		sym.Unreachable("graph-ok")
		return
	}
	handoff := uint64(nSegs * size)
	start := uint64(size*sym.Choice("start-segment", nSegs)) + uint64(3*sym.Choice("start-offset", 2))
	reqPlan, err := plan.BuildTier1RequestPlan(true, size, 0, 0, start, handoff, handoff+5, false)
	if err != nil || reqPlan.ReadExecOut == nil {
		sym.Unreachable("plan-ok")
		return
	}
	mem := sym.NewMemStore()
	logger := zap.NewNop()
	execoutConfigs, err := execout.NewConfigs(mem, execGraph.UsedModules(), execGraph.ModuleHashes(), size, 0, logger)
	if err != nil {
		sym.Unreachable("execout-configs-ok")
		return
	}
	mcfg := execoutConfigs.ConfigMap["m"]
	// cache: output files of earlier requests, any subset
	firstSeg := int(start / size)
	if sym.Param("FILES", 1) == 1 {
		for seg := firstSeg; seg < nSegs; seg++ {
			if sym.Choice("cached-output", 2) == 1 {
				if err := c04WriteOutput(mcfg, seg, size); err != nil {
					sym.Unreachable("cache-write-ok")
					return
				}
			}
		}
	}

	ctx := reqctx.WithRequest(context.Background(), &reqctx.RequestDetails{ResolvedStartBlockNum: start, LinearHandoffBlockNum: handoff, StopBlockNum: handoff + 5, ProductionMode: true, OutputModule: "m", Modules: mods})
	ctx = reqctx.WithReqStats(ctx, metrics.NewReqStats(&metrics.Config{}, logger))

	var delivered []uint64
	stream := response.New(func(resp substreams.ResponseFromAnyTier) error {
		if r, ok := resp.(*pbsubstreamsrpc.Response); ok {
			if d := r.GetBlockScopedData(); d != nil {
				delivered = append(delivered, d.Clock.Number)
				sym.Assert(d.Output != nil && len(d.Output.MapOutput.Value) == 1 && d.Output.MapOutput.Value[0] == byte(d.Clock.Number), "payload-of-that-block")
			}
		}
		return nil
	})
	sched := New(ctx, stream)
	stages := stage.NewStages(ctx, execGraph, reqPlan, store.ConfigMap{})
	sched.Stages = stages
	requested := execGraph.OutputModule()
	sched.ExecOutWalker = orchexecout.NewWalker(ctx, requested, execoutConfigs.NewFileWalker("m", reqPlan.ReadOutSegmenter(execGraph.ModulesInitBlocks()["m"])), reqPlan.ReadExecOut, stream)
	if err := stages.FetchStoresState(ctx, reqPlan.WriteOutSegmenter(), store.ConfigMap{}, execoutConfigs); err != nil {
		sym.Unreachable("fetch-state-ok")
		return
	}
	var started []c05Job
	wid := 0
	sched.WorkerPool = work.NewWorkerPool(ctx, nWorkers, func(*zap.Logger) work.Worker {
		wid++
		return &c05Worker{id: "w" + string(rune('0'+wid)), jobs: &started}
	})
	sched.WorkerPool.VerifSkipRampup()

	var running []c05Job // jobs handed to a worker, not finished yet
	var msgs []loop.Msg  // produced by executed commands, not delivered yet
	quit := false
	var quitErr error
	// execute a command now (the loop runs each in its own goroutine: when it runs relative to
	// other commands only matters through the messages' order, explored below)
	var run func(c loop.Cmd)
	run = func(c loop.Cmd) {
		if c == nil {
			return
		}
		m := c()
		switch x := m.(type) {
		case nil:
		case loop.BatchMsg:
			for _, sub := range x {
				run(sub)
			}
		case loop.SequenceMsg:
			for _, sub := range x {
				run(sub)
			}
		default:
			msgs = append(msgs, m)
		}
		// jobs the scheduler just handed to workers
		running = append(running, started...)
		started = nil
	}
	run(sched.Init())

	for step := 0; step < depth && !quit; step++ {
		n := len(msgs) + len(running)
		if n == 0 {
			break
		}
		key := stages.VerifFingerprint() + "|" + sched.WorkerPool.VerifFingerprint() + "|"
		first, cur, last := sched.ExecOutWalker.Progress()
		key += string(rune('0'+first)) + string(rune('0'+cur)) + string(rune('0'+last))
		if sched.ExecOutWalker.IsWorking() {
			key += "W"
		}
		key += "|" + string(rune('0'+len(delivered)/10)) + string(rune('0'+len(delivered)%10)) + "|"
		var mk []string
		for _, m := range msgs {
			mk = append(mk, c04MsgKey(m))
		}
		sort.Strings(mk) // any pending message can be delivered next: the set matters, not the order
		key += strings.Join(mk, ",") + "|"
		var rk []string
		for _, j := range running {
			rk = append(rk, string(rune('0'+j.unit.Segment))+j.worker.ID())
		}
		sort.Strings(rk)
		key += strings.Join(rk, ",")
		for seg := 0; seg < nSegs; seg++ {
			if _, ok := mem.Get(execGraph.ModuleHashes().Get("m") + "/outputs/" + mcfg.NewFile(block.NewRange(uint64(seg*size), uint64((seg+1)*size))).Filename()); ok {
				key += "F"
			} else {
				key += "-"
			}
		}
		if sym.Visited(key, depth-step) {
			sym.Reach("pruned-visited-state")
			return
		}
		c := sym.Choice("event", n)
		if c < len(msgs) {
			m := msgs[c]
			msgs = append(append([]loop.Msg(nil), msgs[:c]...), msgs[c+1:]...)
			if q, ok := m.(loop.QuitMsg); ok {
				quit, quitErr = true, q.VerifErr()
				break
			}
			run(sched.Update(m))
			sym.Reach("message-delivered")
		} else {
			j := running[c-len(msgs)]
			running = append(append([]c05Job(nil), running[:c-len(msgs)]...), running[c-len(msgs)+1:]...)
			// the remote job wrote its segment's output file, then reports success
			if err := c04WriteOutput(mcfg, j.unit.Segment, size); err != nil {
				sym.Unreachable("job-write-ok")
				return
			}
			msgs = append(msgs, work.MsgJobSucceeded{Unit: j.unit, Worker: j.worker})
			sym.Reach("job-finished")
		}
		// in order, no duplicate, inside the read range — at every moment
		for i, num := range delivered {
			sym.Assert(num >= reqPlan.ReadExecOut.StartBlock && num < reqPlan.ReadExecOut.ExclusiveEndBlock, "delivered-block-inside-the-read-range")
			if i > 0 {
				sym.Assert(delivered[i-1] < num, "delivered-blocks-strictly-increasing")
			}
		}
	}
	if !quit {
		if len(msgs)+len(running) == 0 {
			sym.Unreachable("loop-stuck-without-quitting")
			return
		}
		sym.BoundExceeded("event-loop-not-finished-within-DEPTH")
		return
	}
	sym.Reach("quit")
	sym.Assert(quitErr == nil, "loop-quits-without-error")
	want := int(reqPlan.ReadExecOut.ExclusiveEndBlock - reqPlan.ReadExecOut.StartBlock)
	sym.Assert(len(delivered) == want, "every-block-of-the-read-range-delivered-before-the-hand-off")
	if len(delivered) == want {
		for i, num := range delivered {
			sym.Assert(num == reqPlan.ReadExecOut.StartBlock+uint64(i), "delivered-blocks-are-the-read-range-in-order")
		}
	}
}
