package scheduler

import (
	"context"
	"errors"
	"strings"

	"github.com/streamingfast/substreams/block"
	"github.com/streamingfast/substreams/manifest"
	"github.com/streamingfast/substreams/metrics"
	"github.com/streamingfast/substreams/orchestrator/loop"
	"github.com/streamingfast/substreams/orchestrator/plan"
	"github.com/streamingfast/substreams/orchestrator/response"
	"github.com/streamingfast/substreams/orchestrator/stage"
	"github.com/streamingfast/substreams/orchestrator/work"
	pbsubstreams "github.com/streamingfast/substreams/pb/sf/substreams/v1"
	"github.com/streamingfast/substreams/pipeline/exec"
	"github.com/streamingfast/substreams/reqctx"
	"github.com/streamingfast/substreams/storage/execout"
	"github.com/streamingfast/substreams/storage/store"
	sym "github.com/streamingfast/substreams/zz_verifsym"
	"go.uber.org/zap"
)

type c05Job struct {
	unit   stage.Unit
	worker work.Worker
}

type c05Worker struct {
	id   string
	jobs *[]c05Job
}

func (w *c05Worker) ID() string { return w.id }
func (w *c05Worker) Work(ctx context.Context, unit stage.Unit, startBlock uint64, moduleNames []string, upstream *response.Stream) loop.Cmd {
	*w.jobs = append(*w.jobs, c05Job{unit, w})
	return func() loop.Msg { return nil }
}

func c05Src() *pbsubstreams.Module_Input {
	return &pbsubstreams.Module_Input{Input: &pbsubstreams.Module_Input_Source_{Source: &pbsubstreams.Module_Input_Source{Type: "sf.test.Block"}}}
}
func c05StoreIn(n string) *pbsubstreams.Module_Input {
	return &pbsubstreams.Module_Input{Input: &pbsubstreams.Module_Input_Store_{Store: &pbsubstreams.Module_Input_Store{ModuleName: n, Mode: pbsubstreams.Module_Input_Store_GET}}}
}
func c05Store(name string, in ...*pbsubstreams.Module_Input) *pbsubstreams.Module {
	return &pbsubstreams.Module{Name: name, Inputs: in, Kind: &pbsubstreams.Module_KindStore_{KindStore: &pbsubstreams.Module_KindStore{UpdatePolicy: pbsubstreams.Module_KindStore_UPDATE_POLICY_SET, ValueType: "string"}}}
}
func c05Map(name string, in ...*pbsubstreams.Module_Input) *pbsubstreams.Module {
	return &pbsubstreams.Module{Name: name, Inputs: in, Kind: &pbsubstreams.Module_KindMap_{KindMap: &pbsubstreams.Module_KindMap{OutputType: "proto:x"}}}
}

// c05Matrix parses Stages.StatesString(): one row per stage, one char per segment.
func c05Matrix(s *stage.Stages) []string {
	rows := strings.Split(strings.TrimRight(s.StatesString(), "\n"), "\n")
	for i := range rows {
		rows[i] = rows[i][2:]
	}
	return rows
}

func c05State(m []string, stg, seg int) byte {
	if stg >= len(m) || seg >= len(m[stg]) {
		return '.'
	}
	return m[stg][seg]
}

// VerifC05Scheduler: bounded model checking of the real Scheduler.Update from
// every initial cache state: whatever the order of job and merge completions,
// jobs only start when the stores they read are complete up to their segment,
// merges happen once and in order, no state transition is invalid, and the
// scheduler does not get stuck before everything is built.
func VerifC05Scheduler() {
	manifest.TestUseSimpleHash = true
	nStores := sym.Param("STORES", 2)
	nSegs := sym.Param("SEGMENTS", 2)
	nWorkers := sym.Param("WORKERS", 2)
	depth := sym.Param("DEPTH", 6)
	const size = 10

	var list []*pbsubstreams.Module
	prev := ""
	for i := 0; i < nStores; i++ {
		name := "s" + string(rune('0'+i))
		in := []*pbsubstreams.Module_Input{c05Src()}
		if prev != "" {
			in = append(in, c05StoreIn(prev))
		}
		list = append(list, c05Store(name, in...))
		prev = name
	}
	list = append(list, c05Map("m", c05Src(), c05StoreIn(prev)))
	mods := &pbsubstreams.Modules{Modules: list, Binaries: []*pbsubstreams.Binary{{Type: "wasm/rust-v1", Content: []byte{1}}}}
	execGraph, err := exec.NewOutputModuleGraph("m", true, mods, 0)
	if err != nil {
		sym.Unreachable("graph-ok")
		return
	}
	handoff := uint64(nSegs * size)
	start := uint64(size * sym.Choice("start-segment", nSegs))
	reqPlan, err := plan.BuildTier1RequestPlan(true, size, 0, 0, start, handoff, handoff+5, true)
	if err != nil {
		sym.Unreachable("plan-ok")
		return
	}

	// symbolic cache content: every full snapshot, exactly-ranged partial and mapper output present or absent
	mem := sym.NewMemStore()
	logger := zap.NewNop()
	storeConfigs, err := store.NewConfigMap(mem, execGraph.Stores(), execGraph.ModuleHashes(), 0)
	if err != nil {
		sym.Unreachable("store-configs-ok")
		return
	}
	execoutConfigs, err := execout.NewConfigs(mem, execGraph.UsedModules(), execGraph.ModuleHashes(), size, 0, logger)
	if err != nil {
		sym.Unreachable("execout-configs-ok")
		return
	}
	fileSet := sym.Param("FILES", 1) // 0: empty cache, 1: every subset of the first segment's files, 2: every subset of all files
	files := fileSet > 0
	lastFileSeg := nSegs
	if fileSet == 1 {
		lastFileSeg = 1
	}
	type present struct{ full, partial [8]bool }
	cache := make([]present, nStores)
	var mapOut [8]bool
	if files {
		for i := 0; i < nStores; i++ {
			// files live under <module hash>/states/, as store.NewConfig lays them out
			name := execGraph.ModuleHashes().Get("s" + string(rune('0'+i)))
			for seg := 0; seg < lastFileSeg; seg++ {
				end := uint64((seg + 1) * size)
				if sym.Choice("full", 2) == 1 {
					cache[i].full[seg] = true
					mem.Put(name+"/states/"+store.FullStateFileName(block.NewRange(0, end)), []byte{1})
				}
				if sym.Choice("partial", 2) == 1 {
					cache[i].partial[seg] = true
					mem.Put(name+"/states/"+store.PartialFileName(block.NewRange(end-size, end)), []byte{1})
				}
			}
		}
		for seg := int(start / size); seg < lastFileSeg; seg++ {
			if sym.Choice("output", 2) == 1 {
				mapOut[seg] = true
				r := block.NewRange(uint64(seg*size), uint64((seg+1)*size))
				mem.Put(execGraph.ModuleHashes().Get("m")+"/outputs/"+execoutConfigs.ConfigMap["m"].NewFile(r).Filename(), []byte{1})
			}
		}
	}

	ctx := reqctx.WithRequest(context.Background(), &reqctx.RequestDetails{ResolvedStartBlockNum: start, LinearHandoffBlockNum: handoff, StopBlockNum: handoff + 5, ProductionMode: true, OutputModule: "m", Modules: mods})
	ctx = reqctx.WithReqStats(ctx, metrics.NewReqStats(&metrics.Config{}, logger))
	stages := stage.NewStages(ctx, execGraph, reqPlan, storeConfigs)
	if err := stages.FetchStoresState(ctx, reqPlan.StoresSegmenter(), storeConfigs, execoutConfigs); err != nil {
		sym.Unreachable("fetch-state-ok")
		return
	}
	nStages := nStores + 1
	init := c05Matrix(stages)

	// scan soundness: a unit is Completed / PartialPresent only if its files exist
	for stg := 0; stg < nStores; stg++ {
		for seg := 0; seg < nSegs; seg++ {
			switch c05State(init, stg, seg) {
			case 'C':
				sym.Reach("scan-found-full-snapshot")
				sym.Assert(cache[stg].full[seg], "scan-completed-only-with-full-snapshot")
			case 'P':
				sym.Reach("scan-found-partial")
				sym.Assert(cache[stg].partial[seg], "scan-partial-present-only-with-partial-file")
			}
		}
	}
	for seg := 0; seg < nSegs; seg++ {
		if c05State(init, nStores, seg) == 'C' {
			sym.Reach("scan-found-mapper-output")
			sym.Assert(mapOut[seg], "scan-mapper-completed-only-with-output-file")
		}
	}

	var jobs []c05Job
	sched := New(ctx, nil)
	sched.Stages = stages
	wid := 0
	sched.WorkerPool = work.NewWorkerPool(ctx, nWorkers, func(*zap.Logger) work.Worker {
		wid++
		return &c05Worker{id: "w" + string(rune('0'+wid)), jobs: &jobs}
	})

	sched.WorkerPool.VerifSkipRampup()

	var inflightJobs []c05Job
	var inflightMerges []stage.Unit
	merged := map[stage.Unit]bool{}
	before := init
	// what Update did: new jobs (recorded by the fake workers) and new merges (matrix diff)
	observe := func(label string) {
		after := c05Matrix(stages)
		for _, j := range jobs {
			inflightJobs = append(inflightJobs, j)
			u := j.unit
			// dependency safety: every lower store stage is complete up to the previous segment
			for lower := 0; lower < u.Stage && lower < nStores; lower++ {
				if u.Segment == 0 {
					continue
				}
				st := c05State(after, lower, u.Segment-1)
				sym.Assert(st == 'C' || st == 'N', "job-starts-only-when-lower-stores-complete-up-to-its-segment")
			}
		}
		jobs = nil
		for stg := 0; stg < nStores; stg++ {
			for seg := 0; seg < nSegs; seg++ {
				if c05State(after, stg, seg) == 'M' && c05State(before, stg, seg) != 'M' {
					u := stage.Unit{Stage: stg, Segment: seg}
					sym.Assert(!merged[u], "unit-merged-at-most-once")
					merged[u] = true
					for lowerSeg := 0; lowerSeg < seg; lowerSeg++ {
						st := c05State(after, stg, lowerSeg)
						sym.Assert(st == 'C' || st == 'N', "merges-in-block-order")
					}
					for _, other := range inflightMerges {
						sym.Assert(other.Stage != stg, "one-merge-in-flight-per-stage")
					}
					inflightMerges = append(inflightMerges, u)
				}
			}
		}
		before = after
		if !sym.Symbolic() {
			println("TRACE", label, strings.Join(after, " | "), "jobs-in-flight", len(inflightJobs), "merges-in-flight", len(inflightMerges))
		}
	}

	sched.Init() // its commands: schedule next job, try merges (their decision part ran inside Init)
	observe("init")

	quiescent := false
	scheduleIsNoop := false // the last MsgScheduleNextJob found nothing and nothing happened since
	for step := 0; step < depth; step++ {
		first := 0
		if scheduleIsNoop {
			first = 1 // delivering it again would change nothing
		}
		n := 1 - first + len(inflightJobs) + len(inflightMerges)
		if n == 0 {
			break
		}
		// explicit-state pruning: everything here is concrete, the future depends only on this state
		key := stages.VerifFingerprint() + "|" + sched.WorkerPool.VerifFingerprint() + "|"
		for _, j := range inflightJobs {
			key += string(rune('a'+j.unit.Stage)) + string(rune('0'+j.unit.Segment)) + j.worker.ID() + ","
		}
		key += "|"
		for _, u := range inflightMerges {
			key += string(rune('a'+u.Stage)) + string(rune('0'+u.Segment)) + ","
		}
		if scheduleIsNoop {
			key += "|noop"
		}
		if sym.Visited(key, depth-step) {
			sym.Reach("pruned-visited-state")
			return
		}
		c := first + sym.Choice("deliver", n)
		switch {
		case c == 0:
			nj := len(inflightJobs)
			sched.Update(work.MsgScheduleNextJob{})
			observe("schedule")
			if len(inflightJobs) == nj {
				scheduleIsNoop = true
				if len(inflightJobs) == 0 && len(inflightMerges) == 0 {
					quiescent = true
				}
			}
		case c <= len(inflightJobs):
			j := inflightJobs[c-1]
			inflightJobs = append(append([]c05Job(nil), inflightJobs[:c-1]...), inflightJobs[c:]...)
			sched.Update(work.MsgJobSucceeded{Unit: j.unit, Worker: j.worker})
			observe("job-succeeded")
			scheduleIsNoop = false
			sym.Reach("job-succeeded")
		default:
			i := c - 1 - len(inflightJobs)
			u := inflightMerges[i]
			inflightMerges = append(append([]stage.Unit(nil), inflightMerges[:i]...), inflightMerges[i+1:]...)
			sched.Update(stage.MsgMergeFinished{Unit: u})
			observe("merge-finished")
			scheduleIsNoop = false
			sym.Reach("merge-finished")
		}
		if quiescent {
			break
		}
	}
	if !quiescent {
		// the delivery bound ran out before the scheduler came to rest: nothing was
		// decided about liveness on this path
		sym.BoundExceeded("scheduler-not-quiescent-within-DEPTH")
	}
	if quiescent {
		sym.Reach("quiescent")
		// nothing in flight and nothing to schedule: everything must be built
		sym.Assert(stages.AllStoresCompleted(), "no-deadlock-stores-complete-at-quiescence")
		// the same, read off the matrix (the accessor above is code under test too): every
		// segment of every store stage is Completed or NoOp
		final := c05Matrix(stages)
		for stg := 0; stg < nStores; stg++ {
			for seg := 0; seg < nSegs; seg++ {
				st := c05State(final, stg, seg)
				sym.Assert(st == 'C' || st == 'N', "every-store-segment-built-at-quiescence")
			}
		}
		sym.Assert(stages.LastStageCompleted(), "no-deadlock-outputs-written-at-quiescence")
	}
	_ = nStages
}

// VerifC16SchedulerFailure: a failed job or a failed merge ends the event loop
// with exactly that error (nothing is swallowed, nothing else is scheduled
// first), whatever the scheduler's state.
func VerifC16SchedulerFailure() {
	manifest.TestUseSimpleHash = true
	ctx := reqctx.WithRequest(context.Background(), &reqctx.RequestDetails{ProductionMode: true, OutputModule: "m"})
	ctx = reqctx.WithReqStats(ctx, metrics.NewReqStats(&metrics.Config{}, zap.NewNop()))
	mods := &pbsubstreams.Modules{Modules: []*pbsubstreams.Module{c05Store("s0", c05Src()), c05Map("m", c05Src(), c05StoreIn("s0"))}, Binaries: []*pbsubstreams.Binary{{Type: "wasm/rust-v1", Content: []byte{1}}}}
	execGraph, err := exec.NewOutputModuleGraph("m", true, mods, 0)
	if err != nil {
		sym.Unreachable("graph-ok")
		return
	}
	reqPlan, err := plan.BuildTier1RequestPlan(true, 10, 0, 0, 0, 20, 25, true)
	if err != nil {
		sym.Unreachable("plan-ok")
		return
	}
	storeConfigs, err := store.NewConfigMap(sym.NewMemStore(), execGraph.Stores(), execGraph.ModuleHashes(), 0)
	if err != nil {
		sym.Unreachable("store-configs-ok")
		return
	}
	sched := New(ctx, nil)
	sched.Stages = stage.NewStages(ctx, execGraph, reqPlan, storeConfigs)
	var jobs []c05Job
	sched.WorkerPool = work.NewWorkerPool(ctx, 1, func(*zap.Logger) work.Worker { return &c05Worker{id: "w1", jobs: &jobs} })
	sched.WorkerPool.VerifSkipRampup()
	if sym.Choice("after-init", 2) == 1 {
		sched.Init()
		sched.Update(work.MsgScheduleNextJob{})
	}
	failure := errors.New("job failed: deterministic module failure")
	var cmd loop.Cmd
	if sym.Choice("kind", 2) == 0 {
		cmd = sched.Update(work.MsgJobFailed{Unit: stage.Unit{Stage: 0, Segment: 0}, Error: failure})
	} else {
		cmd = sched.Update(stage.MsgMergeFailed{Unit: stage.Unit{Stage: 0, Segment: 0}, Error: failure})
	}
	// the command is a batch of one: the quit carrying the error
	quits := 0
	var run func(c loop.Cmd)
	run = func(c loop.Cmd) {
		if c == nil {
			return
		}
		switch m := c().(type) {
		case loop.BatchMsg:
			for _, sub := range m {
				run(sub)
			}
		case loop.QuitMsg:
			quits++
			sym.Assert(m.VerifErr() == failure, "loop-quits-with-the-job-error")
		default:
			sym.Unreachable("nothing-else-happens-after-a-failure")
		}
	}
	run(cmd)
	sym.Assert(quits == 1, "failure-quits-the-loop")
	sym.Reach("failed")
}
