package stage

import (
	"fmt"
	"strings"
)

// VerifFingerprint is an overlay-only accessor used by the /verif harness of
// the scheduler to hash the scheduling state (matrix, merge cursors, shadowable
// segment). It reads, never writes.
func (s *Stages) VerifFingerprint() string {
	var sb strings.Builder
	sb.WriteString(s.StatesString())
	for _, st := range s.stages {
		fmt.Fprintf(&sb, "c%d,", st.segmentCompleted)
	}
	fmt.Fprintf(&sb, "sh%d,off%d", s.shadowableSegment, s.segmentOffset)
	return sb.String()
}

// VerifSegmentCompleted exposes a stage's merge cursor.
func (s *Stages) VerifSegmentCompleted(stageIdx int) int { return s.stages[stageIdx].segmentCompleted }
