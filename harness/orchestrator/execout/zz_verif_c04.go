package execout

import (
	"context"

	"github.com/streamingfast/bstream"
	"github.com/streamingfast/substreams"
	"github.com/streamingfast/substreams/block"
	"github.com/streamingfast/substreams/orchestrator/response"
	pbsubstreamsrpc "github.com/streamingfast/substreams/pb/sf/substreams/rpc/v2"
	pbsubstreams "github.com/streamingfast/substreams/pb/sf/substreams/v1"
	"github.com/streamingfast/substreams/storage/execout"
	pboutput "github.com/streamingfast/substreams/storage/execout/pb"
	sym "github.com/streamingfast/substreams/zz_verifsym"
	"go.uber.org/zap"
)

// VerifC04Walker: the messages handed to the response function for one cached
// output file are exactly the items with start <= num < end, in ascending
// block order, payload and id untouched, cursor built from the item's own block.
func VerifC04Walker() {
	n := sym.Choice("items", sym.Param("ITEMS", 3)+1)
	ids := []string{"ia", "ib", "ic", "id"}
	file := &execout.File{Kv: map[string]*pboutput.Item{}}
	var items []*pboutput.Item
	for i := 0; i < n; i++ {
		it := &pboutput.Item{BlockNum: sym.U64("num"), BlockId: ids[i], Payload: sym.BytesN("payload", 1)}
		sym.Assume(it.BlockNum < 100)
		for _, p := range items {
			sym.Assume(p.BlockNum != it.BlockNum) // one item per block of a final segment
		}
		items = append(items, it)
		file.Kv[it.BlockId] = it
	}
	start, end := sym.U64("start"), sym.U64("end")
	sym.Assume(start < end)
	sym.Assume(end <= 200)

	var got []*pbsubstreamsrpc.BlockScopedData
	resp := func(r substreams.ResponseFromAnyTier) error {
		if m, ok := r.(*pbsubstreamsrpc.Response); ok {
			if d := m.GetBlockScopedData(); d != nil {
				got = append(got, d)
				return nil
			}
		}
		sym.Unreachable("only-block-scoped-data")
		return nil
	}
	mod := &pbsubstreams.Module{Name: "out", Output: &pbsubstreams.Module_Output{Type: "proto:x.Y"}}
	w := &Walker{ctx: context.Background(), Range: block.NewRange(start, end), streamOut: response.New(resp), module: mod, logger: zap.NewNop()}
	if err := w.sendItems(file.SortedItems()); err != nil {
		sym.Unreachable("send-ok")
		return
	}
	sym.Reach("sent")

	// exactly the items in range, each once
	inRange := 0
	for _, it := range items {
		in := sym.And(it.BlockNum >= start, it.BlockNum < end)
		found := 0
		for _, d := range got {
			if d.Clock.Id == it.BlockId {
				found++
				sym.Assert(d.Clock.Number == it.BlockNum, "message-carries-the-items-block-number")
				sym.Assert(sym.EqBytes(d.Output.MapOutput.Value, it.Payload), "payload-untouched")
				sym.Assert(d.Output.Name == "out", "module-name")
				sym.Assert(d.FinalBlockHeight == it.BlockNum, "final-block-height-is-the-block")
				ref := bstream.NewBlockRef(it.BlockId, it.BlockNum)
				want := (&bstream.Cursor{Step: bstream.StepNewIrreversible, Block: ref, LIB: ref, HeadBlock: ref}).ToOpaque()
				sym.Assert(sym.EqStr(d.Cursor, want), "cursor-designates-the-messages-block")
			}
		}
		if in {
			inRange++
			sym.Assert(found == 1, "item-in-range-delivered-once")
		} else {
			sym.Assert(found == 0, "item-out-of-range-not-delivered")
		}
	}
	sym.Assert(len(got) == inRange, "nothing-invented")
	for i := 1; i < len(got); i++ {
		sym.Assert(got[i-1].Clock.Number < got[i].Clock.Number, "ascending-block-order")
	}
}
