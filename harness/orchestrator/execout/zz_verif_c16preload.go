package execout

import (
	"context"
	"time"

	"github.com/streamingfast/substreams"
	"github.com/streamingfast/substreams/block"
	"github.com/streamingfast/substreams/manifest"
	"github.com/streamingfast/substreams/orchestrator/response"
	pbsubstreamsrpc "github.com/streamingfast/substreams/pb/sf/substreams/rpc/v2"
	pbsubstreams "github.com/streamingfast/substreams/pb/sf/substreams/v1"
	"github.com/streamingfast/substreams/pipeline/exec"
	"github.com/streamingfast/substreams/storage/execout"
	sym "github.com/streamingfast/substreams/zz_verifsym"
	"go.uber.org/zap"
)

// VerifC16Preload: the walker streams a segment whose file was not there yet when it was first
// asked for — with preloading of the next segment switched on, so that the failed attempt and
// the later successful one go through the same File object, and without: in both cases, once
// the job has written the file, the client receives exactly its items (a failed load never
// makes a segment stream empty).
func VerifC16Preload() {
	manifest.TestUseSimpleHash = true
	disablePreloadExecFiles = sym.Choice("preload-next-segment", 2) == 0
	mod := &pbsubstreams.Module{Name: "out", BinaryEntrypoint: "out", Inputs: []*pbsubstreams.Module_Input{{Input: &pbsubstreams.Module_Input_Source_{Source: &pbsubstreams.Module_Input_Source{Type: "sf.test.Block"}}}},
		Kind: &pbsubstreams.Module_KindMap_{KindMap: &pbsubstreams.Module_KindMap{OutputType: "proto:x"}}, Output: &pbsubstreams.Module_Output{Type: "proto:x"}}
	mods := &pbsubstreams.Modules{Modules: []*pbsubstreams.Module{mod}, Binaries: []*pbsubstreams.Binary{{Type: "wasm/rust-v1", Content: []byte{1}}}}
	graph, err := exec.NewOutputModuleGraph("out", true, mods, 0)
	if err != nil {
		sym.Unreachable("graph-ok")
		return
	}
	mem := sym.NewMemStore()
	cfgs, err := execout.NewConfigs(mem, graph.UsedModules(), graph.ModuleHashes(), 10, 0, zap.NewNop())
	if err != nil {
		sym.Unreachable("configs-ok")
		return
	}
	ctx := context.Background()
	payload := sym.BytesN("payload", 2)
	write := func(seg uint64) bool {
		f := cfgs.NewFile("out", block.NewRange(seg*10, seg*10+10))
		blk := seg*10 + 3
		f.SetItem(&pbsubstreams.Clock{Number: blk, Id: string([]byte{'b', byte('0' + seg)})}, []byte{payload[seg]})
		return f.Save(ctx) == nil
	}
	if !write(0) {
		sym.Unreachable("segment-0-file-written")
		return
	}
	var got []*pbsubstreamsrpc.BlockScopedData
	resp := func(r substreams.ResponseFromAnyTier) error {
		if m, ok := r.(*pbsubstreamsrpc.Response); ok {
			if d := m.GetBlockScopedData(); d != nil {
				got = append(got, d)
			}
		}
		return nil
	}
	w := NewWalker(ctx, mod, cfgs.NewFileWalker("out", block.NewSegmenter(10, 0, 20)), block.NewRange(0, 20), response.New(resp))
	// segment 0 is there (and, with preloading, segment 1 is looked for too early)
	if _, ok := w.CmdDownloadCurrentSegment(0)().(MsgFileDownloaded); !ok {
		sym.Unreachable("segment-0-streams")
		return
	}
	w.NextSegment()
	if sym.Native() {
		// the preload runs in a goroutine: let it look for the file before the job writes it (the
		// executor runs a go statement to completion at once)
		time.Sleep(200 * time.Millisecond)
	}
	// the job of segment 1 is still running: zero or one more attempt finds nothing
	if sym.Choice("early-attempts", 2) == 1 {
		if _, ok := w.CmdDownloadCurrentSegment(0)().(MsgFileNotPresent); !ok {
			sym.Unreachable("missing-file-reported-as-not-present")
			return
		}
		sym.Reach("file-not-present")
	}
	if !write(1) {
		sym.Unreachable("segment-1-file-written")
		return
	}
	if _, ok := w.CmdDownloadCurrentSegment(0)().(MsgFileDownloaded); !ok {
		sym.Unreachable("segment-1-streams-once-written")
		return
	}
	w.NextSegment()
	sym.Assert(w.IsCompleted(), "walker-completes")
	sym.Assert(len(got) == 2, "client-receives-the-items-of-both-segments")
	if len(got) == 2 {
		sym.Assert(got[0].Clock.Number == 3 && got[1].Clock.Number == 13, "client-receives-blocks-in-order")
		sym.Assert(sym.EqBytes(got[1].Output.MapOutput.Value, []byte{payload[1]}), "client-receives-the-payload-written")
	}
	sym.Reach("streamed")
}
