package sym

import "github.com/RoaringBitmap/roaring/roaring64"

// BitmapFromBits builds the set {i : bit i of bits is set} (blocks 0..7 of a segment).
func BitmapFromBits(bits uint8) *roaring64.Bitmap {
	bm := roaring64.New()
	for i := uint64(0); i < 8; i++ {
		if bits&(1<<i) != 0 {
			bm.Add(i)
		}
	}
	return bm
}

// BitmapBits is the inverse of BitmapFromBits (members >= 8 are ignored).
func BitmapBits(bm *roaring64.Bitmap) uint8 {
	var out uint8
	for i := uint64(0); i < 8; i++ {
		if bm.Contains(i) {
			out |= 1 << i
		}
	}
	return out
}
