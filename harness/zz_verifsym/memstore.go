package sym

import (
	"bytes"
	"context"
	"errors"
	"io"
	"net/url"
	"sort"
	"strings"

	"github.com/streamingfast/dstore"
)

// MemStore is an in-memory dstore.Store for harnesses: only the methods the
// checked code uses are implemented (anything else panics through the nil
// embedded interface).
type MemStore struct {
	dstore.Store
	files      *map[string][]byte
	prefix     string
	failWrites *int // number of coming WriteObject calls that consume their reader and then fail (transient fault)
}

func NewMemStore() *MemStore {
	m := map[string][]byte{}
	n := 0
	return &MemStore{files: &m, failWrites: &n}
}

// FailNextWrites makes the next n WriteObject calls read their content and then
// return a transient error without storing anything.
func (m *MemStore) FailNextWrites(n int) { *m.failWrites = n }

var errTransientWrite = errors.New("mem store: transient write failure")

type memReader struct{ *bytes.Reader }

func (memReader) Close() error { return nil }

func (m *MemStore) Put(name string, content []byte) { (*m.files)[m.prefix+name] = content }

func (m *MemStore) Get(name string) ([]byte, bool) {
	b, ok := (*m.files)[m.prefix+name]
	return b, ok
}

func (m *MemStore) Names() []string {
	var out []string
	for k := range *m.files {
		if strings.HasPrefix(k, m.prefix) {
			out = append(out, k[len(m.prefix):])
		}
	}
	sort.Strings(out)
	return out
}

func (m *MemStore) OpenObject(ctx context.Context, name string) (io.ReadCloser, error) {
	b, ok := (*m.files)[m.prefix+name]
	if !ok {
		return nil, dstore.ErrNotFound
	}
	return memReader{bytes.NewReader(b)}, nil
}

func (m *MemStore) FileExists(ctx context.Context, base string) (bool, error) {
	_, ok := (*m.files)[m.prefix+base]
	return ok, nil
}

func (m *MemStore) WriteObject(ctx context.Context, base string, f io.Reader) error {
	b, err := io.ReadAll(f)
	if err != nil {
		return err
	}
	if *m.failWrites > 0 {
		*m.failWrites--
		return errTransientWrite
	}
	(*m.files)[m.prefix+base] = b
	return nil
}

func (m *MemStore) DeleteObject(ctx context.Context, base string) error {
	if _, ok := (*m.files)[m.prefix+base]; !ok {
		return dstore.ErrNotFound
	}
	delete(*m.files, m.prefix+base)
	return nil
}

func (m *MemStore) Walk(ctx context.Context, prefix string, f func(filename string) error) error {
	for _, n := range m.Names() {
		if !strings.HasPrefix(n, prefix) {
			continue
		}
		if err := f(n); err != nil {
			if err == dstore.StopIteration {
				return nil
			}
			return err
		}
	}
	return nil
}

func (m *MemStore) WalkFrom(ctx context.Context, prefix, startingPoint string, f func(filename string) error) error {
	for _, n := range m.Names() {
		if !strings.HasPrefix(n, prefix) || n < startingPoint {
			continue
		}
		if err := f(n); err != nil {
			if err == dstore.StopIteration {
				return nil
			}
			return err
		}
	}
	return nil
}

func (m *MemStore) SubStore(sub string) (dstore.Store, error) {
	return &MemStore{files: m.files, prefix: m.prefix + sub + "/", failWrites: m.failWrites}, nil
}

func (m *MemStore) BaseURL() *url.URL              { return &url.URL{Scheme: "mem", Path: "/" + m.prefix} }
func (m *MemStore) ObjectPath(base string) string { return m.prefix + base }
func (m *MemStore) ObjectURL(base string) string  { return "mem://" + m.prefix + base }
func (m *MemStore) SetMeter(meter dstore.Meter)    {}
