package sym

import (
	"bytes"
	"context"
	"errors"
	"io"
	"net/http"
	"net/url"
	"sort"
	"strconv"
	"strings"

	"github.com/streamingfast/dstore"
)

// MemStore is an in-memory dstore.Store for harnesses: only the methods the
// checked code uses are implemented (anything else panics through the nil
// embedded interface).
type MemStore struct {
	dstore.Store
	files      *map[string][]byte
	prefix     string
	failWrites *int // number of coming WriteObject calls that consume their reader and then fail (transient fault)
	failAt     *int // k > 0: the k-th coming WriteObject call fails that way (once)
}

func NewMemStore() *MemStore {
	m := map[string][]byte{}
	n, k := 0, 0
	return &MemStore{files: &m, failWrites: &n, failAt: &k}
}

// FailNextWrites makes the next n WriteObject calls read their content and then
// return a transient error without storing anything.
func (m *MemStore) FailNextWrites(n int) { *m.failWrites = n }

// FailWriteNumber makes exactly the k-th coming WriteObject call fail that way.
func (m *MemStore) FailWriteNumber(k int) { *m.failAt = k }

// FailWritePending reports whether the write FailWriteNumber designated has not happened yet.
func (m *MemStore) FailWritePending() bool { return *m.failAt > 0 }

var errTransientWrite = errors.New("mem store: transient write failure")

type memReader struct{ *bytes.Reader }

func (memReader) Close() error { return nil }

func (m *MemStore) Put(name string, content []byte) {
	(*m.files)[m.prefix+name] = content
}

func (m *MemStore) Get(name string) ([]byte, bool) {
	b, ok := (*m.files)[m.prefix+name]
	return b, ok
}

func (m *MemStore) Names() []string {
	var out []string
	for k := range *m.files {
		if strings.HasPrefix(k, m.prefix) {
			out = append(out, k[len(m.prefix):])
		}
	}
	sort.Strings(out)
	return out
}

func (m *MemStore) OpenObject(ctx context.Context, name string) (io.ReadCloser, error) {
	b, ok := (*m.files)[m.prefix+name]
	if !ok {
		return nil, dstore.ErrNotFound
	}
	return memReader{bytes.NewReader(b)}, nil
}

func (m *MemStore) FileExists(ctx context.Context, base string) (bool, error) {
	_, ok := (*m.files)[m.prefix+base]
	return ok, nil
}

func (m *MemStore) WriteObject(ctx context.Context, base string, f io.Reader) error {
	b, err := io.ReadAll(f)
	if err != nil {
		return err
	}
	if *m.failWrites > 0 {
		*m.failWrites--
		return errTransientWrite
	}
	if *m.failAt > 0 {
		*m.failAt--
		if *m.failAt == 0 {
			return errTransientWrite
		}
	}
	(*m.files)[m.prefix+base] = b
	return nil
}

func (m *MemStore) DeleteObject(ctx context.Context, base string) error {
	if _, ok := (*m.files)[m.prefix+base]; !ok {
		return dstore.ErrNotFound
	}
	delete(*m.files, m.prefix+base)
	return nil
}

func (m *MemStore) Walk(ctx context.Context, prefix string, f func(filename string) error) error {
	for _, n := range m.Names() {
		if !strings.HasPrefix(n, prefix) {
			continue
		}
		if err := f(n); err != nil {
			if err == dstore.StopIteration {
				return nil
			}
			return err
		}
	}
	return nil
}

func (m *MemStore) WalkFrom(ctx context.Context, prefix, startingPoint string, f func(filename string) error) error {
	for _, n := range m.Names() {
		if !strings.HasPrefix(n, prefix) || n < startingPoint {
			continue
		}
		if err := f(n); err != nil {
			if err == dstore.StopIteration {
				return nil
			}
			return err
		}
	}
	return nil
}

func (m *MemStore) SubStore(sub string) (dstore.Store, error) {
	return &MemStore{files: m.files, prefix: m.prefix + sub + "/", failWrites: m.failWrites, failAt: m.failAt}, nil
}

func (m *MemStore) BaseURL() *url.URL             { return &url.URL{Scheme: "mem", Path: "/" + m.prefix} }
func (m *MemStore) ObjectPath(base string) string { return m.prefix + base }
func (m *MemStore) ObjectURL(base string) string  { return "mem://" + m.prefix + base }
func (m *MemStore) SetMeter(meter dstore.Meter)   {}

// URLStore is the store handed out by URL: it is also dstore.Clonable, like the real stores
// the services open (plain MemStores handed directly to the storage layer are not, so that
// code under check does not take its metering branch).
type URLStore struct{ *MemStore }

func (u *URLStore) SubStore(sub string) (dstore.Store, error) {
	return &URLStore{&MemStore{files: u.files, prefix: u.prefix + sub + "/", failWrites: u.failWrites, failAt: u.failAt}}, nil
}

func (u *URLStore) Clone(ctx context.Context, opts ...dstore.Option) (dstore.Store, error) {
	return &URLStore{&MemStore{files: u.files, prefix: u.prefix, failWrites: u.failWrites, failAt: u.failAt}}, nil
}

// StoreByURL is what the checked code gets from dstore.NewStore / NewDBinStore (the engine
// redirects both constructors to the hooks below): the harness's store for that URL.
var StoreByURL = map[string]*MemStore{}

func HookNewStore(baseURL, extension, compressionType string, overwrite bool, opts ...dstore.Option) (dstore.Store, error) {
	if s, ok := StoreByURL[baseURL]; ok {
		return &URLStore{s}, nil
	}
	return nil, errors.New("mem store: no store registered for " + baseURL)
}

func HookNewDBinStore(baseURL string, opts ...dstore.Option) (dstore.Store, error) {
	return HookNewStore(baseURL, "dbin.zst", "zstd", false, opts...)
}

// Native reports whether the harness runs as an ordinary Go test (replay of a solver model
// against the real build); the engine intercepts it and answers false.
func Native() bool { return true }

// NewURLStore returns an empty object store together with the URL under which the checked
// code's own dstore.NewStore(url, "zst", "zstd", ...) opens it. Under the engine that is an
// in-memory store handed out by the redirected constructor; natively it is a directory
// store under the system temp directory (RemoveURLStores deletes them).
func NewURLStore(name string) (*MemStore, string) {
	if !Native() {
		m := NewMemStore()
		StoreByURL["mem://"+name] = m
		return m, "mem://" + name
	}
	// native replay: the replay build patches dstore.NewStore to look the URL up in net/http's
	// default mux first (vcheck, patchedDstore), so the checked code gets this very store
	urlCounter++
	url := "mem://" + name + "-" + strconv.Itoa(urlCounter)
	m := NewMemStore()
	http.Handle("verif-store.invalid/"+strings.ReplaceAll(strings.ReplaceAll(url, ":", "-"), "/", "-"), &URLStore{m})
	return m, url
}

var urlCounter int

// ServeHTTP makes a URLStore registrable in net/http's default mux, the registry the patched
// dstore.NewStore of the replay build looks stores up in.
func (u *URLStore) ServeHTTP(http.ResponseWriter, *http.Request) {}

// RemoveURLStores is kept for harnesses written when native URL stores were directories.
func RemoveURLStores() {}

// Delete removes a file (harness side: eviction).
func (m *MemStore) Delete(name string) {
	delete(*m.files, m.prefix+name)
}
