// Package sym is the harness API of the /verif symbolic executor.
//
// Under the engine every function here is intercepted by name. Natively
// (go test -overlay) the same functions read concrete inputs from the JSON
// file named by VERIF_REPLAY, so a solver model can be replayed against the
// real build: Assume(false) ends the run as "assumption not met",
// Assert(false) prints ASSERT-FAIL <label>, Observe prints OBS name=value.
package sym

import (
	"encoding/hex"
	"encoding/json"
	"fmt"
	"os"
	"strconv"
)

type replayFile struct {
	Harness string            `json:"harness"`
	Values  map[string]string `json:"values"`
	Params  map[string]int    `json:"params"`
}

// Param is a per-tier bound of the harness (shape bound, unwinding depth).
func Param(name string, def int) int {
	load()
	if v, ok := rf.Params[name]; ok {
		return v
	}
	return def
}

var (
	loaded  bool
	rf      replayFile
	counter = map[string]int{}
	Failed  []string
)

type AssumeFailed struct{ Msg string }

func load() {
	if loaded {
		return
	}
	loaded = true
	p := os.Getenv("VERIF_REPLAY")
	if p == "" {
		panic("VERIF_REPLAY not set")
	}
	b, err := os.ReadFile(p)
	if err != nil {
		panic(err)
	}
	if err := json.Unmarshal(b, &rf); err != nil {
		panic(err)
	}
}

// Reset clears per-run state (between harnesses in one process).
func Reset() {
	counter = map[string]int{}
	Failed = nil
}

func HarnessName() string { load(); return rf.Harness }

func fresh(name string) string {
	n := counter[name]
	counter[name] = n + 1
	return fmt.Sprintf("%s#%d", name, n)
}

func raw(name string) string {
	load()
	key := fresh(name)
	v, ok := rf.Values[key]
	if !ok {
		// inputs the model does not mention are unconstrained: zero
		return ""
	}
	return v
}

func u(name string, bits int) uint64 {
	s := raw(name)
	if s == "" {
		return 0
	}
	v, err := strconv.ParseUint(s, 10, 64)
	if err != nil {
		panic(fmt.Sprintf("replay value %s=%q: %v", name, s, err))
	}
	if bits < 64 {
		v &= (1 << uint(bits)) - 1
	}
	return v
}

func i(name string) int64 {
	s := raw(name)
	if s == "" {
		return 0
	}
	v, err := strconv.ParseInt(s, 10, 64)
	if err != nil {
		panic(fmt.Sprintf("replay value %s=%q: %v", name, s, err))
	}
	return v
}

func U64(name string) uint64 { return u(name, 64) }
func U32(name string) uint32 { return uint32(u(name, 32)) }
func Byte(name string) byte  { return byte(u(name, 8)) }
func I64(name string) int64  { return i(name) }
func I32(name string) int32  { return int32(i(name)) }
func Int(name string) int    { return int(i(name)) }
func Bool(name string) bool  { return raw(name) == "true" }

func Choice(name string, n int) int {
	v := int(i(name))
	if v < 0 || v >= n {
		panic(fmt.Sprintf("replay choice %s=%d out of range %d", name, v, n))
	}
	return v
}

func bytesOf(name string) []byte {
	s := raw(name)
	if s == "" {
		return []byte{}
	}
	if len(s) < 4 || s[:4] != "hex:" {
		panic("replay bytes value must start with hex:")
	}
	b, err := hex.DecodeString(s[4:])
	if err != nil {
		panic(err)
	}
	return b
}

func Bytes(name string, maxLen int) []byte {
	b := bytesOf(name)
	if len(b) > maxLen {
		panic("replay bytes longer than bound")
	}
	return b
}

func BytesN(name string, n int) []byte {
	b := bytesOf(name)
	for len(b) < n {
		b = append(b, 0)
	}
	return b[:n]
}

func Str(name string, maxLen int) string { return string(Bytes(name, maxLen)) }
func StrN(name string, n int) string    { return string(BytesN(name, n)) }

func Assume(c bool) {
	if !c {
		panic(AssumeFailed{"assumption not met"})
	}
}

func Assert(c bool, label string) {
	if !c {
		Failed = append(Failed, label)
		fmt.Printf("ASSERT-FAIL %s\n", label)
	}
}

func Unreachable(label string) { Assert(false, label) }

func Reach(tag string) {}

func Observe(name string, v any) {
	switch x := v.(type) {
	case bool:
		fmt.Printf("OBS %s=%v\n", name, x)
	case int:
		fmt.Printf("OBS %s=%d\n", name, x)
	case int8:
		fmt.Printf("OBS %s=%d\n", name, x)
	case int16:
		fmt.Printf("OBS %s=%d\n", name, x)
	case int32:
		fmt.Printf("OBS %s=%d\n", name, x)
	case int64:
		fmt.Printf("OBS %s=%d\n", name, x)
	case uint:
		fmt.Printf("OBS %s=%d\n", name, x)
	case uint8:
		fmt.Printf("OBS %s=%d\n", name, x)
	case uint16:
		fmt.Printf("OBS %s=%d\n", name, x)
	case uint32:
		fmt.Printf("OBS %s=%d\n", name, x)
	case uint64:
		fmt.Printf("OBS %s=%d\n", name, x)
	case string:
		fmt.Printf("OBS %s=%x\n", name, x)
	case []byte:
		fmt.Printf("OBS %s=%x\n", name, x)
	case nil:
		fmt.Printf("OBS %s=nil\n", name)
	default:
		fmt.Printf("OBS %s=<%T>\n", name, v)
	}
}

func Bound(name string, v any) {}

// BoundExceeded marks a path that ran into a depth bound of the harness before
// reaching the state its assertions are about. Under the engine the path counts
// as an unwinding failure (the check cannot pass); natively it is only printed.
func BoundExceeded(label string) { fmt.Printf("BOUND-EXCEEDED %s\n", label) }
func Note(msg string)          {}
func Symbolic() bool           { return false }

func IteU64(c bool, a, b uint64) uint64 {
	if c {
		return a
	}
	return b
}
func IteInt(c bool, a, b int) int {
	if c {
		return a
	}
	return b
}
func And(a, b bool) bool     { return a && b }
func Or(a, b bool) bool      { return a || b }
func Implies(a, b bool) bool { return !a || b }
func Iff(a, b bool) bool     { return a == b }
func EqBytes(a, b []byte) bool { return string(a) == string(b) }
func EqStr(a, b string) bool { return a == b }

// Run executes one harness natively, translating outcomes to lines the
// engine's replay driver parses.
func Run(name string, f func()) (outcome string) {
	Reset()
	defer func() {
		if r := recover(); r != nil {
			if _, ok := r.(AssumeFailed); ok {
				outcome = "assume"
				fmt.Printf("OUTCOME %s assume\n", name)
				return
			}
			outcome = "panic"
			fmt.Printf("PANIC %v\n", r)
			fmt.Printf("OUTCOME %s panic\n", name)
			return
		}
	}()
	f()
	if len(Failed) > 0 {
		outcome = "assert-fail"
	} else {
		outcome = "ok"
	}
	fmt.Printf("OUTCOME %s %s\n", name, outcome)
	return
}

// Visited reports (under the engine) whether a fully concrete harness state
// was already explored with at least `remaining` steps left; natively it is
// always false (a replay follows one path to its end).
func Visited(key string, remaining int) bool { return false }
