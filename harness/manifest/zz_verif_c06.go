package manifest

import (
	pbsubstreams "github.com/streamingfast/substreams/pb/sf/substreams/v1"
	sym "github.com/streamingfast/substreams/zz_verifsym"
)

const (
	c06Map = iota
	c06Store
	c06Index
)

const (
	c06InSource = iota
	c06InParams
	c06InMap
	c06InStore
)

type c06In struct {
	kind  int
	ref   string // map / store input
	mode  pbsubstreams.Module_Input_Store_Mode
	value string // params value / source type
}

type c06Mod struct {
	name      string
	kind      int
	init      uint64
	entry     string
	bin       int
	inputs    []c06In
	filterRef string
	filterQ   string
}

type c06Bin struct {
	typ     string
	content []byte
}

func c06Build(mods []c06Mod, bins []c06Bin) *pbsubstreams.Modules {
	out := &pbsubstreams.Modules{}
	for _, b := range bins {
		out.Binaries = append(out.Binaries, &pbsubstreams.Binary{Type: b.typ, Content: b.content})
	}
	for _, m := range mods {
		pm := &pbsubstreams.Module{Name: m.name, InitialBlock: m.init, BinaryEntrypoint: m.entry, BinaryIndex: uint32(m.bin)}
		switch m.kind {
		case c06Map:
			pm.Kind = &pbsubstreams.Module_KindMap_{KindMap: &pbsubstreams.Module_KindMap{OutputType: "proto:x"}}
		case c06Store:
			pm.Kind = &pbsubstreams.Module_KindStore_{KindStore: &pbsubstreams.Module_KindStore{UpdatePolicy: pbsubstreams.Module_KindStore_UPDATE_POLICY_SET, ValueType: "string"}}
		case c06Index:
			pm.Kind = &pbsubstreams.Module_KindBlockIndex_{KindBlockIndex: &pbsubstreams.Module_KindBlockIndex{OutputType: "proto:keys"}}
		}
		for _, in := range m.inputs {
			switch in.kind {
			case c06InSource:
				pm.Inputs = append(pm.Inputs, &pbsubstreams.Module_Input{Input: &pbsubstreams.Module_Input_Source_{Source: &pbsubstreams.Module_Input_Source{Type: in.value}}})
			case c06InParams:
				pm.Inputs = append(pm.Inputs, &pbsubstreams.Module_Input{Input: &pbsubstreams.Module_Input_Params_{Params: &pbsubstreams.Module_Input_Params{Value: in.value}}})
			case c06InMap:
				pm.Inputs = append(pm.Inputs, &pbsubstreams.Module_Input{Input: &pbsubstreams.Module_Input_Map_{Map: &pbsubstreams.Module_Input_Map{ModuleName: in.ref}}})
			case c06InStore:
				pm.Inputs = append(pm.Inputs, &pbsubstreams.Module_Input{Input: &pbsubstreams.Module_Input_Store_{Store: &pbsubstreams.Module_Input_Store{ModuleName: in.ref, Mode: in.mode}}})
			}
		}
		if m.filterRef != "" {
			pm.BlockFilter = &pbsubstreams.Module_BlockFilter{Module: m.filterRef, Query: &pbsubstreams.Module_BlockFilter_QueryString{QueryString: m.filterQ}}
		}
		out.Modules = append(out.Modules, pm)
	}
	return out
}

// c06HashAll hashes every module with the real code; ok=false if hashing failed.
func c06HashAll(mods *pbsubstreams.Modules) (map[string][]byte, bool) {
	graph, err := NewModuleGraph(mods.Modules)
	if err != nil {
		return nil, false
	}
	h := NewModuleHashes()
	out := map[string][]byte{}
	for _, m := range mods.Modules {
		d, err := h.HashModule(mods, m, graph)
		if err != nil {
			return nil, false
		}
		out[m.Name] = d
	}
	return out, true
}

func c06Src(v string) c06In      { return c06In{kind: c06InSource, value: v} }
func c06Par(v string) c06In      { return c06In{kind: c06InParams, value: v} }
func c06MapIn(ref string) c06In  { return c06In{kind: c06InMap, ref: ref} }
func c06StoreIn(ref string) c06In { return c06In{kind: c06InStore, ref: ref, mode: pbsubstreams.Module_Input_Store_GET} }

// c06Shape returns one of the graph shapes with symbolic field values.
func c06Shape(shape int) ([]c06Mod, []c06Bin) {
	s := c06Str
	src := s("source-type")
	bins := []c06Bin{{s("bin0-type"), sym.BytesN("bin0-content", 1)}, {s("bin1-type"), sym.BytesN("bin1-content", 1)}}
	mk := func(name string, kind int, bin int, in ...c06In) c06Mod {
		return c06Mod{name: name, kind: kind, init: sym.U64("init"), entry: s("entry"), bin: bin, inputs: in}
	}
	switch shape {
	case 0: // chain: A store <- B map <- C map (with params)
		return []c06Mod{
			mk("A", c06Store, 0, c06Src(src)),
			mk("B", c06Map, 0, c06Src(src), c06StoreIn("A")),
			mk("C", c06Map, 1, c06Par(s("params")), c06MapIn("B")),
		}, bins
	case 1: // diamond
		return []c06Mod{
			mk("A", c06Map, 0, c06Src(src)),
			mk("B", c06Map, 0, c06MapIn("A")),
			mk("C", c06Store, 1, c06MapIn("A")),
			mk("D", c06Map, 0, c06MapIn("B"), c06StoreIn("C")),
		}, bins
	case 2: // block filter on an index module
		m := mk("M", c06Map, 0, c06Src(src))
		m.filterRef, m.filterQ = "I", s("query")
		return []c06Mod{
			mk("I", c06Index, 0, c06Src(src)),
			mk("J", c06Index, 1, c06Src(src)),
			m,
			mk("N", c06Map, 0, c06MapIn("M")),
		}, bins
	case 4: // two index modules that are both ancestors of M through other paths; M is filtered by one of them
		p := mk("P", c06Map, 0, c06Src(src))
		p.filterRef, p.filterQ = "I", s("query")
		q := mk("Q", c06Map, 1, c06Src(src))
		q.filterRef, q.filterQ = "J", s("query")
		m := mk("M", c06Map, 0, c06MapIn("P"), c06MapIn("Q"))
		m.filterRef, m.filterQ = "I", s("query")
		return []c06Mod{
			mk("I", c06Index, 0, c06Src(src)),
			mk("J", c06Index, 1, c06Src(src)),
			p, q, m,
			mk("N", c06Map, 0, c06MapIn("M")),
		}, bins
	default: // store with two map inputs, read by a map; plus an unrelated module
		return []c06Mod{
			mk("A", c06Map, 0, c06Src(src)),
			mk("B", c06Map, 1, c06Src(src)),
			mk("S", c06Store, 0, c06MapIn("A"), c06MapIn("B")),
			mk("D", c06Map, 0, c06StoreIn("S")),
			mk("U", c06Map, 1, c06Src(src)),
		}, bins
	}
}

// c06Str draws a one-byte string that is not a module name. (NewModuleGraph
// looks source types and params values up as module names, so a value equal
// to a module name creates a spurious dependency edge; that quirk is kept out
// of these harnesses and recorded in DESIGN.md.)
func c06Str(name string) string {
	v := sym.StrN(name, 1)
	sym.Assume(v[0] < 'A')
	return v
}

func c06Clone(mods []c06Mod) []c06Mod {
	out := make([]c06Mod, len(mods))
	for i, m := range mods {
		out[i] = m
		out[i].inputs = append([]c06In(nil), m.inputs...)
	}
	return out
}

// c06Affected: the mutated module and everything that (transitively) reads from it.
func c06Affected(mods []c06Mod, t string) map[string]bool {
	aff := map[string]bool{t: true}
	for changed := true; changed; {
		changed = false
		for _, m := range mods {
			if aff[m.name] {
				continue
			}
			dep := aff[m.filterRef]
			for _, in := range m.inputs {
				if (in.kind == c06InMap || in.kind == c06InStore) && aff[in.ref] {
					dep = true
				}
			}
			if dep {
				aff[m.name] = true
				changed = true
			}
		}
	}
	return aff
}

var c06Mutations = []string{
	"initial-block", "entrypoint", "kind", "binary-content", "binary-type", "params-value", "source-type",
	"input-appended", "input-removed", "inputs-reordered", "store-mode", "filter-query", "filter-module",
}

// VerifC06Mutation: one mutation of one module changes the identifier of that
// module and of its descendants and of nothing else.
func VerifC06Mutation() {
	shape := sym.Choice("shape", sym.Param("SHAPES", 5))
	mods, bins := c06Shape(shape)
	before, ok := c06HashAll(c06Build(mods, bins))
	if !ok {
		sym.Unreachable("hashing-ok")
		return
	}
	ti := sym.Choice("target", len(mods))
	mut := sym.Choice("mutation", len(c06Mutations))
	after := c06Clone(mods)
	bins2 := append([]c06Bin(nil), bins...)
	t := &after[ti]
	affectedBy := t.name
	diff := func(name, old string) string {
		v := c06Str(name)
		sym.Assume(!sym.EqStr(v, old))
		return v
	}
	findIn := func(kind int) int {
		for i, in := range t.inputs {
			if in.kind == kind {
				return i
			}
		}
		return -1
	}
	switch c06Mutations[mut] {
	case "initial-block":
		v := sym.U64("new-init")
		sym.Assume(v != t.init)
		t.init = v
	case "entrypoint":
		t.entry = diff("new-entry", t.entry)
	case "kind":
		t.kind = (t.kind + 1 + sym.Choice("new-kind", 2)) % 3
	case "binary-content":
		v := sym.BytesN("new-content", 1)
		sym.Assume(!sym.EqBytes(v, bins[t.bin].content))
		bins2[t.bin] = c06Bin{bins[t.bin].typ, v}
		// every module using this binary is mutated
		for _, m := range mods {
			if m.bin == t.bin && m.name != t.name {
				sym.Assume(false)
			}
		}
	case "binary-type":
		bins2[t.bin] = c06Bin{diff("new-type", bins[t.bin].typ), bins[t.bin].content}
		for _, m := range mods {
			if m.bin == t.bin && m.name != t.name {
				sym.Assume(false)
			}
		}
	case "params-value":
		i := findIn(c06InParams)
		if i < 0 {
			sym.Assume(false)
		}
		t.inputs[i].value = diff("new-params", t.inputs[i].value)
	case "source-type":
		i := findIn(c06InSource)
		if i < 0 {
			sym.Assume(false)
		}
		t.inputs[i].value = diff("new-source", t.inputs[i].value)
	case "input-appended":
		t.inputs = append(t.inputs, c06Src(c06Str("added-source")))
	case "input-removed":
		if len(t.inputs) < 2 {
			sym.Assume(false)
		}
		i := sym.Choice("removed", len(t.inputs))
		t.inputs = append(append([]c06In(nil), t.inputs[:i]...), t.inputs[i+1:]...)
	case "inputs-reordered":
		if len(t.inputs) < 2 {
			sym.Assume(false)
		}
		t.inputs[0], t.inputs[1] = t.inputs[1], t.inputs[0]
		if t.inputs[0].kind == t.inputs[1].kind {
			sym.Note("reordered inputs of the same kind")
		}
	case "store-mode":
		i := findIn(c06InStore)
		if i < 0 {
			sym.Assume(false)
		}
		t.inputs[i].mode = pbsubstreams.Module_Input_Store_DELTAS
	case "filter-query":
		if t.filterRef == "" {
			sym.Assume(false)
		}
		t.filterQ = diff("new-query", t.filterQ)
	case "filter-module":
		if t.filterRef == "" {
			sym.Assume(false)
		}
		// another index module that is not the same computation
		sym.Assume(!sym.EqBytes(before["I"], before["J"]))
		if t.filterRef == "I" {
			t.filterRef = "J"
		} else {
			t.filterRef = "I"
		}
	}
	hashed, ok := c06HashAll(c06Build(after, bins2))
	if !ok {
		sym.Unreachable("hashing-after-mutation-ok")
		return
	}
	sym.Reach("mutated")
	affected := c06Affected(after, affectedBy)
	label := c06Mutations[mut]
	for _, m := range after {
		same := sym.EqBytes(before[m.name], hashed[m.name])
		if affected[m.name] {
			sym.Assert(!same, "identity-changes-when-"+label+"-changes")
		} else {
			sym.Assert(same, "identity-unchanged-for-unaffected-module-when-"+label+"-changes")
		}
	}
}

// VerifC06Preserved: renaming, alias import, unrelated additions and binary
// re-indexing leave every identifier unchanged; hashing is deterministic.
func VerifC06Preserved() {
	shape := sym.Choice("shape", sym.Param("SHAPES", 5))
	mods, bins := c06Shape(shape)
	base := c06Build(mods, bins)
	before, ok := c06HashAll(base)
	if !ok {
		sym.Unreachable("hashing-ok")
		return
	}
	again, ok := c06HashAll(c06Build(mods, bins))
	if !ok {
		sym.Unreachable("hashing-again-ok")
		return
	}
	for _, m := range mods {
		sym.Assert(sym.EqBytes(before[m.name], again[m.name]), "hashing-deterministic")
	}
	rename := func(n string) string { return n }
	var pb *pbsubstreams.Modules
	switch sym.Choice("transformation", 4) {
	case 0: // consistent rename
		ren := c06Clone(mods)
		for i := range ren {
			ren[i].name = "x" + ren[i].name
			for j := range ren[i].inputs {
				if ren[i].inputs[j].ref != "" {
					ren[i].inputs[j].ref = "x" + ren[i].inputs[j].ref
				}
			}
			if ren[i].filterRef != "" {
				ren[i].filterRef = "x" + ren[i].filterRef
			}
		}
		rename = func(n string) string { return "x" + n }
		pb = c06Build(ren, bins)
		sym.Reach("renamed")
	case 1: // import under an alias through the manifest reader
		pb = c06Build(mods, bins)
		prefixModules(pb.Modules, "alias")
		rename = func(n string) string { return withPrefix(n, "alias") }
		sym.Reach("aliased")
	case 2: // unrelated modules before and after
		extra1 := c06Mod{name: "pre", kind: c06Map, init: sym.U64("extra-init"), entry: "e", bin: 0, inputs: []c06In{c06Src("t")}}
		extra2 := c06Mod{name: "post", kind: c06Store, init: sym.U64("extra-init"), entry: "e", bin: 1, inputs: []c06In{c06Src("t"), c06MapIn("pre")}}
		all := append(append([]c06Mod{extra1}, c06Clone(mods)...), extra2)
		pb = c06Build(all, bins)
		sym.Reach("extended")
	case 3: // binaries moved to other indexes by merging into another package
		src := &pbsubstreams.Package{Modules: c06Build(mods, bins)}
		dest := &pbsubstreams.Package{Modules: &pbsubstreams.Modules{Binaries: []*pbsubstreams.Binary{{Type: "other", Content: []byte{9}}}}}
		reindexAndMergePackage(src, dest)
		pb = dest.Modules
		sym.Reach("reindexed")
	}
	after, ok := c06HashAll(pb)
	if !ok {
		sym.Unreachable("hashing-transformed-ok")
		return
	}
	for _, m := range mods {
		sym.Assert(sym.EqBytes(before[m.name], after[rename(m.name)]), "identity-preserved")
	}
}

// VerifC06ValueNotARef: a params value or source type that happens to equal the
// name of an unrelated module is a value, not a dependency: adding that module
// must not change any identifier, and removing it must not either.
func VerifC06ValueNotARef() {
	which := sym.Choice("which", 2)
	val := "other" // the text of the params value / source type
	params, source := "p", "sf.test.Block"
	if which == 0 {
		params = val
	} else {
		source = val
	}
	bins := []c06Bin{{"wasm/rust-v1", []byte{1}}}
	base := []c06Mod{
		{name: "A", kind: c06Store, init: sym.U64("init"), entry: "e", bin: 0, inputs: []c06In{c06Src(source)}},
		{name: "B", kind: c06Map, init: sym.U64("init"), entry: "e", bin: 0, inputs: []c06In{c06Par(params), c06StoreIn("A")}},
	}
	before, ok := c06HashAll(c06Build(base, bins))
	if !ok {
		sym.Unreachable("hashing-ok")
		return
	}
	// an unrelated module whose name equals that text
	extra := c06Mod{name: val, kind: c06Map, init: sym.U64("extra-init"), entry: "x", bin: 0, inputs: []c06In{c06Src("sf.test.Block")}}
	after, ok := c06HashAll(c06Build(append(c06Clone(base), extra), bins))
	sym.Assert(ok, "value-equal-to-a-module-name-still-hashes")
	if !ok {
		return
	}
	sym.Reach("compared")
	sym.Assert(sym.EqBytes(before["A"], after["A"]), "unrelated-module-named-like-a-value-leaves-identity-unchanged")
	sym.Assert(sym.EqBytes(before["B"], after["B"]), "unrelated-module-named-like-a-value-leaves-identity-unchanged")
}

// VerifC06InPlace: the identifier is a function of the module definitions as they are
// now, not of what the same graph object was asked before: after hashing once, a field
// of one module (params value, initial block, entrypoint) is changed in place and the
// modules are hashed again on the SAME ModuleGraph with fresh ModuleHashes; the result
// equals hashing a freshly built graph of the changed modules.
func VerifC06InPlace() {
	shape := sym.Choice("shape", sym.Param("SHAPES", 5))
	mods, bins := c06Shape(shape)
	pb := c06Build(mods, bins)
	graph, err := NewModuleGraph(pb.Modules)
	if err != nil {
		sym.Unreachable("graph-ok")
		return
	}
	hashOn := func() (map[string][]byte, bool) {
		h := NewModuleHashes()
		out := map[string][]byte{}
		for _, m := range pb.Modules {
			d, err := h.HashModule(pb, m, graph)
			if err != nil {
				return nil, false
			}
			out[m.Name] = d
		}
		return out, true
	}
	if _, ok := hashOn(); !ok {
		sym.Unreachable("first-hashing-ok")
		return
	}
	t := pb.Modules[sym.Choice("target", len(pb.Modules))]
	switch sym.Choice("in-place-change", 3) {
	case 0:
		v := sym.U64("new-init")
		sym.Assume(v != t.InitialBlock)
		t.InitialBlock = v
	case 1:
		v := c06Str("new-entry")
		sym.Assume(!sym.EqStr(v, t.BinaryEntrypoint))
		t.BinaryEntrypoint = v
	default:
		changed := false
		for _, in := range t.Inputs {
			if p := in.GetParams(); p != nil {
				v := c06Str("new-params")
				sym.Assume(!sym.EqStr(v, p.Value))
				p.Value = v
				changed = true
			}
		}
		if !changed {
			sym.Assume(false)
		}
	}
	again, ok := hashOn()
	fresh, ok2 := c06HashAll(pb)
	if !ok || !ok2 {
		sym.Unreachable("second-hashing-ok")
		return
	}
	for _, m := range pb.Modules {
		sym.Assert(sym.EqBytes(again[m.Name], fresh[m.Name]), "identifier-follows-the-current-definition-not-an-earlier-hashing")
	}
	sym.Reach("rehashed")
}
