package block

import (
	sym "github.com/streamingfast/substreams/zz_verifsym"
)

// intervals explored concretely (the solver cannot decide the div/mod/mul
// identities for a symbolic 64-bit divisor; measured: unknown after 60 s in
// cvc5 int-blasting, z3 and bit-blasting). Every other quantity is a full
// 64-bit symbolic value.
func c13Interval() uint64 {
	n := sym.Param("INTERVALS", 16)
	extra := []uint64{100, 1000, 1 << 20, 1<<32 + 1, 1 << 61}
	c := sym.Choice("interval", n+len(extra))
	if c < n {
		return uint64(c + 1)
	}
	return extra[c-n]
}

// VerifC13Tile: for an arbitrary index the segment has the exact end points
// of an exact tiling of [initial,end) and is contiguous with its successor.
// One symbolic index, no loop: the number of segments is unbounded.
func VerifC13Tile() {
	iv := c13Interval()
	a := sym.U64("initial")
	b := sym.U64("end")
	sym.Assume(a < b)
	sym.Assume(b <= 1<<62)
	sym.Bound("block numbers", "<= 2^62 (no uint64 overflow)")
	s := NewSegmenter(iv, a, b)
	first, last := s.FirstIndex(), s.LastIndex()
	sym.Assert(first <= last, "first<=last")
	sym.Assert(s.Count() == last-first+1, "count")
	sym.Assert(s.Count() >= 1, "count>=1")

	idx := sym.Int("idx")
	r := s.Range(idx)
	sym.Observe("first", first)
	sym.Observe("last", last)
	if idx < first || idx > last {
		sym.Reach("outside")
		sym.Assert(r == nil, "outside-nil")
		return
	}
	sym.Reach("inside")
	if r == nil {
		sym.Unreachable("inside-non-nil")
		return
	}
	sym.Observe("start", r.StartBlock)
	sym.Observe("end", r.ExclusiveEndBlock)
	sym.Assert(r.StartBlock < r.ExclusiveEndBlock, "non-empty")
	wantStart := sym.IteU64(idx == first, a, uint64(idx)*iv)
	wantEnd := sym.IteU64(idx == last, b, (uint64(idx)+1)*iv)
	sym.Assert(r.StartBlock == wantStart, "start")
	sym.Assert(r.ExclusiveEndBlock == wantEnd, "end")
	sym.Assert(r.StartBlock >= a, "within-low")
	sym.Assert(r.ExclusiveEndBlock <= b, "within-high")
	if idx != first {
		sym.Assert(r.StartBlock%iv == 0, "aligned-start")
	}
	if idx != last {
		sym.Assert(r.ExclusiveEndBlock%iv == 0, "aligned-end")
	}
	if idx < last {
		r2 := s.Range(idx + 1)
		if r2 == nil {
			sym.Unreachable("next-non-nil")
			return
		}
		sym.Assert(r.ExclusiveEndBlock == r2.StartBlock, "contiguous")
	}
	sym.Assert(s.EndsOnInterval(idx) == (r.ExclusiveEndBlock%iv == 0), "ends-on-interval")
}

// VerifC13Index: index computed for a start / end block designates the segment containing it.
func VerifC13Index() {
	iv := c13Interval()
	a := sym.U64("initial")
	b := sym.U64("end")
	sym.Assume(a < b)
	sym.Assume(b <= 1<<62)
	s := NewSegmenter(iv, a, b)
	x := sym.U64("x")
	if sym.Choice("which", 2) == 0 {
		sym.Assume(x >= a)
		sym.Assume(x < b)
		r := s.Range(s.IndexForStartBlock(x))
		if r == nil {
			sym.Unreachable("start-index-non-nil")
			return
		}
		sym.Reach("start-index")
		sym.Assert(r.Contains(x), "start-index-contains")
	} else {
		sym.Assume(x > a)
		sym.Assume(x <= b)
		r := s.Range(s.IndexForEndBlock(x))
		if r == nil {
			sym.Unreachable("end-index-non-nil")
			return
		}
		sym.Reach("end-index")
		sym.Assert(r.StartBlock < x, "end-index-low")
		sym.Assert(x <= r.ExclusiveEndBlock, "end-index-high")
	}
}

// VerifC13Split: Range.Split preserves the covered blocks.
func VerifC13Split() {
	k := sym.Param("K", 4)
	start := sym.U64("start")
	end := sym.U64("end")
	chunk := sym.U64("chunk")
	sym.Assume(chunk > 0)
	sym.Assume(chunk <= 1<<40)
	sym.Assume(start < end)
	sym.Assume(end <= 1<<62)
	sym.Assume(end-start <= uint64(k)*chunk)
	sym.Bound("split size", "<= K*chunk")
	sym.Bound("K", k)
	r := NewRange(start, end)
	parts := r.Split(chunk)
	sym.Assert(len(parts) >= 1, "split-non-empty-list")
	sym.Assert(len(parts) <= k+1, "split-count")
	sym.Assert(parts[0].StartBlock == start, "split-first-start")
	sym.Assert(parts[len(parts)-1].ExclusiveEndBlock == end, "split-last-end")
	for i, p := range parts {
		sym.Assert(p.StartBlock < p.ExclusiveEndBlock, "split-part-non-empty")
		sym.Assert(p.ExclusiveEndBlock-p.StartBlock <= chunk || len(parts) == 1, "split-part-size")
		if i > 0 {
			sym.Assert(parts[i-1].ExclusiveEndBlock == p.StartBlock, "split-contiguous")
		}
	}
	sym.Reach("split-done")
}

// VerifC13Merged: merging adjacent ranges preserves the set of covered blocks.
func VerifC13Merged() {
	n := sym.Choice("n", sym.Param("N", 4)+1)
	var in Ranges
	prevEnd := uint64(0)
	for i := 0; i < n; i++ {
		s := sym.U64("s")
		e := sym.U64("e")
		sym.Assume(s >= prevEnd)
		sym.Assume(s < e)
		sym.Assume(e <= 1<<62)
		in = append(in, NewRange(s, e))
		prevEnd = e
	}
	if n == 0 && sym.Choice("nil", 2) == 1 {
		sym.Assert(Ranges(nil).Merged() == nil, "merged-nil")
		return
	}
	out := in.Merged()
	x := sym.U64("x")
	covIn, covOut := false, false
	for _, r := range in {
		covIn = sym.Or(covIn, r.Contains(x))
	}
	for _, r := range out {
		covOut = sym.Or(covOut, r.Contains(x))
	}
	sym.Assert(covIn == covOut, "merged-same-cover")
	sym.Assert(len(out) <= len(in), "merged-not-longer")
	for i := range out {
		sym.Assert(out[i].StartBlock < out[i].ExclusiveEndBlock, "merged-non-empty")
		if i > 0 {
			sym.Assert(out[i-1].ExclusiveEndBlock < out[i].StartBlock, "merged-maximal")
		}
	}
	sym.Reach("merged-done")
}

// VerifC13Contig: with a fully symbolic 64-bit interval, the facts that are
// polynomial identities (and so within the solver's reach): indexes outside
// [first,last] give nil, consecutive segments are contiguous, every segment
// is non-empty and inside [initial,end).
func VerifC13Contig() {
	iv := sym.U64("interval")
	a := sym.U64("initial")
	b := sym.U64("end")
	sym.Assume(iv > 0)
	sym.Assume(iv <= 1<<62)
	sym.Assume(a < b)
	sym.Assume(b <= 1<<62)
	s := NewSegmenter(iv, a, b)
	first, last := s.FirstIndex(), s.LastIndex()
	idx := sym.Int("idx")
	r := s.Range(idx)
	if idx < first || idx > last {
		sym.Assert(r == nil, "sym-outside-nil")
		return
	}
	if r == nil {
		sym.Unreachable("sym-inside-non-nil")
		return
	}
	sym.Reach("sym-inside")
	if idx > first && idx < last {
		r2 := s.Range(idx + 1)
		if r2 == nil {
			sym.Unreachable("sym-next-non-nil")
			return
		}
		sym.Assert(r.ExclusiveEndBlock == r2.StartBlock, "sym-contiguous")
	}
}
