package service

import (
	"context"
	"errors"
	"fmt"
	"strings"

	"connectrpc.com/connect"
	"github.com/streamingfast/dgrpc"
	"github.com/streamingfast/substreams/manifest"
	"github.com/streamingfast/substreams/pipeline/exec"
	sym "github.com/streamingfast/substreams/zz_verifsym"
	"google.golang.org/grpc/codes"
	"google.golang.org/grpc/status"
)

// VerifC16ErrorMapping: a deterministic module failure (or a store that became
// too big), however deeply it is wrapped on its way up, leaves tier2 as a gRPC
// invalid-argument error, and that error, however the tier1 glue wraps it on
// its way to the client, leaves tier1 as a connect invalid-argument error. A
// transient tier2 condition (unavailable) never turns into invalid-argument.
func VerifC16ErrorMapping() {
	ctx := context.Background()
	var cause error
	deterministic := true
	switch sym.Choice("cause", 4) {
	case 0:
		cause = fmt.Errorf("block %d: module %q: general wasm execution failed: %w: %s", 12, "m", exec.ErrWasmDeterministicExec, "boom")
	case 1:
		cause = fmt.Errorf("store %q became too big at %d, maximum size: %d", "s", 2000, 1000)
	case 2:
		cause = status.Error(codes.InvalidArgument, "step new irr: handler step new: execute modules: wasm execution failed deterministically")
	case 3:
		cause = status.Error(codes.Unavailable, "service currently overloaded")
		deterministic = false
	}
	err := cause
	for i, n := 0, sym.Choice("tier2-wraps", 3); i < n; i++ {
		err = fmt.Errorf("step new irr: handler step new: %w", err)
	}
	g := toGRPCError(ctx, err)
	st := dgrpc.AsGRPCError(g)
	if st == nil {
		sym.Unreachable("tier2-returns-a-grpc-status-error")
		return
	}
	sym.Assert((st.Code() == codes.InvalidArgument) == deterministic, "tier2-maps-deterministic-failures-and-only-them-to-invalid-argument")

	// what the remote worker hands to the scheduler, and what tier1's glue wraps around it
	up := g
	for i, n := 0, sym.Choice("tier1-wraps", 3); i < n; i++ {
		up = fmt.Errorf("parallel processing run: %w", up)
	}
	c := toConnectError(ctx, up)
	var ce *connect.Error
	if !errors.As(c, &ce) {
		sym.Assert(!deterministic, "tier1-returns-a-connect-error-for-a-deterministic-failure")
		sym.Reach("mapped")
		return
	}
	sym.Assert((ce.Code() == connect.CodeInvalidArgument) == deterministic, "tier1-maps-deterministic-failures-and-only-them-to-invalid-argument")
	sym.Reach("mapped")
}

// VerifC16JobRetry: a tier2 job (the real Tier2Service.processRange, scripted WASM runtime)
// one of whose file writes fails transiently — any one of them; the store consumes the
// writer's content before failing — either retries the write itself or reports the failure
// (the worker then retries the job: VerifC16Worker); in both cases no file is left that
// differs from a clean run's file, and the job run again on whatever the attempt left
// completes with the clean run's results: nothing is computed from an incomplete store or a
// missing output, nothing is written from an exhausted reader.
func VerifC16JobRetry() {
	manifest.TestUseSimpleHash = true
	segSize := uint64(sym.Param("BLOCKS", 2))
	fake := &c07Fake{segSize: segSize, graph: sym.Param("GRAPH", 0), emit: sym.Byte("emit"), keys: byte(sym.Param("KEYS", 2)), vals: sym.BytesN("vals", 2), wals: sym.BytesN("wals", 2)}
	sym.Assume(fake.emit < 1<<segSize)
	stages := []uint32{0, 1}
	if sym.Choice("last-stage-alone", 2) == 1 {
		stages = []uint32{1}
	}

	defer sym.RemoveURLStores()
	clean, cleanURL := sym.NewURLStore("clean")
	for _, st := range stages {
		if err := c07Job(cleanURL, st, 0, segSize, fake); err != nil {
			sym.Unreachable("clean-job-completes")
			return
		}
	}
	faulty, faultyURL := sym.NewURLStore("faulty")
	failedStage := stages[sym.Choice("failing-job", len(stages))]
	for _, st := range stages {
		if st == failedStage {
			// the k-th write of this job fails (natively writes cannot be made to fail: the replay
			// then checks the fault-free run of the same sequence)
			faulty.FailWriteNumber(1 + sym.Choice("failing-write", sym.Param("WRITES", 6)))
			err := c07Job(faultyURL, st, 0, segSize, fake)
			if !faulty.FailWritePending() && !sym.Native() {
				sym.Reach("write-fault-injected")
			}
			faulty.FailWriteNumber(0)
			if err != nil {
				// the job gave up: the worker retries it (VerifC16Worker)
				sym.Reach("job-failed")
			}
			// whatever the attempt left is made of complete files of a clean run
			for _, name := range faulty.Names() {
				c := name
				if strings.HasSuffix(c, ".kv") {
					c = strings.TrimSuffix(c, ".kv") + ".partial"
				}
				a, ok := clean.Get(c)
				if !ok {
					a, ok = clean.Get(name)
				}
				sym.Assert(ok, "failed-attempt-leaves-no-file-a-clean-run-does-not-leave")
				if ok {
					b, _ := faulty.Get(name)
					c07SameFile(c, a, b)
				}
			}
		}
		// the (re)tried job
		if err := c07Job(faultyURL, st, 0, segSize, fake); err != nil {
			sym.Unreachable("retried-job-completes")
			return
		}
	}
	present := map[string]bool{}
	for _, name := range faulty.Names() {
		c := name
		if strings.HasSuffix(c, ".kv") {
			c = strings.TrimSuffix(c, ".kv") + ".partial"
		}
		present[c] = true
		a, ok := clean.Get(c)
		if !ok {
			a, ok = clean.Get(name)
		}
		sym.Assert(ok, "no-file-a-clean-run-does-not-leave")
		if ok {
			b, _ := faulty.Get(name)
			c07SameFile(c, a, b)
		}
	}
	for _, name := range clean.Names() {
		c := name
		if strings.HasSuffix(c, ".kv") {
			c = strings.TrimSuffix(c, ".kv") + ".partial"
		}
		if strings.Contains(name, "/states/") || strings.HasPrefix(name, "tag/"+c07OutHash+"/outputs/") {
			sym.Assert(present[c], "retried-job-leaves-the-result-it-is-run-for")
		}
	}
	sym.Reach("compared")
}
