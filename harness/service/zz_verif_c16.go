package service

import (
	"context"
	"errors"
	"fmt"

	"connectrpc.com/connect"
	"github.com/streamingfast/dgrpc"
	"github.com/streamingfast/substreams/pipeline/exec"
	sym "github.com/streamingfast/substreams/zz_verifsym"
	"google.golang.org/grpc/codes"
	"google.golang.org/grpc/status"
)

// VerifC16ErrorMapping: a deterministic module failure (or a store that became
// too big), however deeply it is wrapped on its way up, leaves tier2 as a gRPC
// invalid-argument error, and that error, however the tier1 glue wraps it on
// its way to the client, leaves tier1 as a connect invalid-argument error. A
// transient tier2 condition (unavailable) never turns into invalid-argument.
func VerifC16ErrorMapping() {
	ctx := context.Background()
	var cause error
	deterministic := true
	switch sym.Choice("cause", 4) {
	case 0:
		cause = fmt.Errorf("block %d: module %q: general wasm execution failed: %w: %s", 12, "m", exec.ErrWasmDeterministicExec, "boom")
	case 1:
		cause = fmt.Errorf("store %q became too big at %d, maximum size: %d", "s", 2000, 1000)
	case 2:
		cause = status.Error(codes.InvalidArgument, "step new irr: handler step new: execute modules: wasm execution failed deterministically")
	case 3:
		cause = status.Error(codes.Unavailable, "service currently overloaded")
		deterministic = false
	}
	err := cause
	for i, n := 0, sym.Choice("tier2-wraps", 3); i < n; i++ {
		err = fmt.Errorf("step new irr: handler step new: %w", err)
	}
	g := toGRPCError(ctx, err)
	st := dgrpc.AsGRPCError(g)
	if st == nil {
		sym.Unreachable("tier2-returns-a-grpc-status-error")
		return
	}
	sym.Assert((st.Code() == codes.InvalidArgument) == deterministic, "tier2-maps-deterministic-failures-and-only-them-to-invalid-argument")

	// what the remote worker hands to the scheduler, and what tier1's glue wraps around it
	up := g
	for i, n := 0, sym.Choice("tier1-wraps", 3); i < n; i++ {
		up = fmt.Errorf("parallel processing run: %w", up)
	}
	c := toConnectError(ctx, up)
	var ce *connect.Error
	if !errors.As(c, &ce) {
		sym.Assert(!deterministic, "tier1-returns-a-connect-error-for-a-deterministic-failure")
		sym.Reach("mapped")
		return
	}
	sym.Assert((ce.Code() == connect.CodeInvalidArgument) == deterministic, "tier1-maps-deterministic-failures-and-only-them-to-invalid-argument")
	sym.Reach("mapped")
}
