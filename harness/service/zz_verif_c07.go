package service

import (
	"context"
	"io"
	"strings"
	"time"

	"github.com/streamingfast/bstream"
	pbbstream "github.com/streamingfast/bstream/pb/sf/bstream/v1"
	"github.com/streamingfast/bstream/stream"
	"github.com/streamingfast/substreams"
	"github.com/streamingfast/substreams/manifest"
	pbindex "github.com/streamingfast/substreams/pb/sf/substreams/index/v1"
	pbssinternal "github.com/streamingfast/substreams/pb/sf/substreams/intern/v2"
	pbsubstreams "github.com/streamingfast/substreams/pb/sf/substreams/v1"
	pboutput "github.com/streamingfast/substreams/storage/execout/pb"
	pbindexes "github.com/streamingfast/substreams/storage/index/pb"
	"github.com/streamingfast/substreams/storage/store/marshaller"
	"github.com/streamingfast/substreams/wasm"
	sym "github.com/streamingfast/substreams/zz_verifsym"
	"go.uber.org/zap"
	"google.golang.org/protobuf/proto"
	"google.golang.org/protobuf/types/known/anypb"
	"google.golang.org/protobuf/types/known/timestamppb"
)

// c07Fake is a scripted stand-in for the WASM runtime (registered under the default runtime
// name): the block index "idx" emits key "a" on the blocks the harness chose; the mapper
// "m1" emits the block's symbolic byte on the blocks the harness chose and nothing on the
// others; the mapper "m2" (filtered on idx: "a") emits another symbolic byte; the store "s1"
// sets key k<block parity> to m1's value; the mapper "out" returns what it reads from the
// store followed by the values of m1 and m2.
type c07Fake struct {
	emit, keys byte
	valLen     int
	segSize    uint64
	graph      int // 0: stages [m1|s1] [idx|m2|out]; 1: a second store s2 (reads s1) in a stage of its own, out reads s2; 2: as 0 with s1 filtered on idx too; 3: as 0 with an append-policy s1; 4: as 0 with out reading s1 in deltas mode and s1 logging a no-op delete_prefix on blocks without input; 5: as 0 with a sparse out (reads s1 and m2 only); 6: as 0 with m2 filtered on "a && b", b never emitted; 7: as 0 with out starting at block 1
	vals, wals []byte
}

// m1Value is what m1 emits on a block where it emits: the block's symbolic byte, padded to
// valLen bytes with bytes that tell blocks and positions apart.
func (f *c07Fake) m1Value(blk uint64) []byte {
	out := []byte{f.vals[blk%uint64(len(f.vals))]}
	for i := 1; i < f.valLen; i++ {
		out = append(out, byte(16*blk)+byte(i))
	}
	return out
}

type c07Instance struct{}

func (c07Instance) Cleanup(ctx context.Context) error { return nil }
func (c07Instance) Close(ctx context.Context) error   { return nil }

func (f *c07Fake) NewInstance(ctx context.Context) (wasm.Instance, error) { return c07Instance{}, nil }
func (f *c07Fake) Close(ctx context.Context) error                        { return nil }
func (f *c07Fake) ExecuteNewCall(ctx context.Context, call *wasm.Call, cached wasm.Instance, arguments []wasm.Argument, argValues map[string][]byte) (wasm.Instance, error) {
	blk := call.Clock.Number
	switch call.ModuleName {
	case "idx":
		var keys []string
		if f.keys&(1<<(blk%f.segSize)) != 0 {
			keys = []string{"a"}
		}
		b, err := proto.Marshal(&pbindex.Keys{Keys: keys})
		if err != nil {
			return nil, err
		}
		call.SetReturnValue(b)
	case "m1":
		if f.emit&(1<<(blk%f.segSize)) != 0 {
			call.SetReturnValue(f.m1Value(blk))
		}
	case "m2":
		call.SetReturnValue([]byte{f.wals[blk%uint64(len(f.wals))]})
	case "s1":
		if f.graph == 4 && len(argValues["m1"]) == 0 {
			call.DoDeletePrefix(1, "zz") // an operation in the log that changes nothing: no delta
		}
		if in := argValues["m1"]; len(in) != 0 {
			if f.graph == 3 {
				call.DoAppend(1, []string{"k0", "k1"}[blk%2], in)
			} else {
				call.DoSet(1, []string{"k0", "k1"}[blk%2], in)
			}
		}
	case "s2":
		if in := argValues["m1"]; len(in) != 0 {
			v, _ := call.DoGetLast(0, "k0")
			call.DoSet(1, "c", append(append([]byte{}, v...), in...))
		}
	case "out":
		if f.graph == 4 {
			// what a module reading the store's deltas sees: their number, and operation, key and new
			// value of each
			deltas := &pbsubstreams.StoreDeltas{}
			if err := proto.Unmarshal(argValues["s1"], deltas); err != nil {
				return nil, err
			}
			out := []byte{byte(len(deltas.StoreDeltas))}
			for _, d := range deltas.StoreDeltas {
				out = append(out, byte(d.Operation), byte(len(d.Key)), byte(len(d.NewValue)))
				out = append(out, d.NewValue...)
			}
			out = append(out, byte(len(argValues["m1"])), byte(len(argValues["m2"])))
			out = append(out, argValues["m1"]...)
			call.SetReturnValue(append(out, argValues["m2"]...))
			break
		}
		first := "k0"
		if f.graph == 1 {
			first = "c"
		}
		v, _ := call.DoGetLast(0, first)
		w, _ := call.DoGetLast(0, "k1")
		out := append([]byte{byte(len(v)), byte(len(w)), byte(len(argValues["m1"])), byte(len(argValues["m2"]))}, v...)
		out = append(out, w...)
		out = append(out, argValues["m1"]...)
		call.SetReturnValue(append(out, argValues["m2"]...))
	}
	return c07Instance{}, nil
}

type c07Obj struct {
	cur *bstream.Cursor
}

func (o c07Obj) Cursor() *bstream.Cursor              { return o.cur }
func (o c07Obj) Step() bstream.StepType               { return bstream.StepNewIrreversible }
func (o c07Obj) FinalBlockHeight() uint64             { return o.cur.LIB.Num() }
func (o c07Obj) ReorgJunctionBlock() bstream.BlockRef { return nil }

// c07Stream delivers the final blocks start..stop (the stop block makes the pipeline end the
// stream) to the handler, one after the other.
type c07Stream struct {
	h           bstream.Handler
	start, stop uint64
}

const c07OutHash = "6f7574" // manifest.TestUseSimpleHash: hex of the module name "out"

// c07SameFile: the bytes of a cache file follow the iteration order of a Go map (snapshots,
// cached outputs and indexes are all encoded from maps), so "equivalent to the file of a clean
// run" is: the same decoded content.
func c07SameFile(name string, a, b []byte) {
	switch {
	case strings.Contains(name, "/states/"):
		c07SameStore(a, b)
	case strings.Contains(name, "/outputs/"):
		ma, mb := &pboutput.Map{}, &pboutput.Map{}
		if ma.UnmarshalFast(a) != nil || mb.UnmarshalFast(b) != nil {
			sym.Unreachable("output-file-decodes")
			return
		}
		sym.Assert(len(ma.Kv) == len(mb.Kv), "same-cached-output-blocks-as-a-clean-run")
		for k, x := range ma.Kv {
			y, ok := mb.Kv[k]
			sym.Assert(ok, "same-cached-output-blocks-as-a-clean-run")
			if !ok {
				continue
			}
			sym.Assert(x.BlockNum == y.BlockNum && x.BlockId == y.BlockId && x.Cursor == y.Cursor, "same-cached-output-clock-as-a-clean-run")
			sym.Assert(x.Timestamp.GetSeconds() == y.Timestamp.GetSeconds(), "same-cached-output-clock-as-a-clean-run")
			sym.Assert(sym.EqBytes(x.Payload, y.Payload), "same-cached-output-payload-as-a-clean-run")
		}
	case strings.Contains(name, "/index/"):
		ma, mb := &pbindexes.Map{}, &pbindexes.Map{}
		if proto.Unmarshal(a, ma) != nil || proto.Unmarshal(b, mb) != nil {
			sym.Unreachable("index-file-decodes")
			return
		}
		sym.Assert(len(ma.Indexes) == len(mb.Indexes), "same-index-keys-as-a-clean-run")
		for k, x := range ma.Indexes {
			y, ok := mb.Indexes[k]
			sym.Assert(ok, "same-index-keys-as-a-clean-run")
			sym.Assert(sym.EqBytes(x, y), "same-index-bitmaps-as-a-clean-run")
		}
	default:
		sym.Unreachable("known-kind-of-cache-file")
	}
}

func c07SameStore(a, b []byte) {
	da, _, errA := marshaller.Default().Unmarshal(a)
	db, _, errB := marshaller.Default().Unmarshal(b)
	if errA != nil || errB != nil {
		sym.Unreachable("snapshot-decodes")
		return
	}
	sym.Assert(len(da.Kv) == len(db.Kv), "same-snapshot-keys-as-a-clean-run")
	for k, v := range da.Kv {
		w, ok := db.Kv[k]
		sym.Assert(ok, "same-snapshot-keys-as-a-clean-run")
		sym.Assert(sym.EqBytes(v, w), "same-snapshot-values-as-a-clean-run")
	}
	sym.Assert(len(da.DeletePrefixes) == len(db.DeletePrefixes), "same-snapshot-delete-prefixes-as-a-clean-run")
}

func c07ID(n uint64) string { return string([]byte{'b', byte('0' + n)}) }

func (s *c07Stream) Run(ctx context.Context) error {
	for n := s.start; n <= s.stop; n++ {
		ref := bstream.NewBlockRef(c07ID(n), n)
		blk := &pbbstream.Block{Number: n, Id: c07ID(n), LibNum: n, Timestamp: timestamppb.New(time.Unix(int64(n), 0)),
			Payload: &anypb.Any{TypeUrl: "type.googleapis.com/sf.test.Block", Value: []byte{byte(n)}}}
		if n > 0 {
			blk.ParentId, blk.ParentNum = c07ID(n-1), n-1
		}
		obj := c07Obj{cur: &bstream.Cursor{Step: bstream.StepNewIrreversible, Block: ref, LIB: ref, HeadBlock: ref}}
		if err := s.h.ProcessBlock(blk, obj); err != nil {
			return err
		}
	}
	return stream.ErrStopBlockReached
}

func c07Modules(graph int) *pbsubstreams.Modules {
	src := &pbsubstreams.Module_Input{Input: &pbsubstreams.Module_Input_Source_{Source: &pbsubstreams.Module_Input_Source{Type: "sf.test.Block"}}}
	mapIn := func(n string) *pbsubstreams.Module_Input {
		return &pbsubstreams.Module_Input{Input: &pbsubstreams.Module_Input_Map_{Map: &pbsubstreams.Module_Input_Map{ModuleName: n}}}
	}
	storeIn := &pbsubstreams.Module_Input{Input: &pbsubstreams.Module_Input_Store_{Store: &pbsubstreams.Module_Input_Store{ModuleName: "s1", Mode: pbsubstreams.Module_Input_Store_GET}}}
	mapper := func(name string, in ...*pbsubstreams.Module_Input) *pbsubstreams.Module {
		return &pbsubstreams.Module{Name: name, BinaryEntrypoint: name, Inputs: in, Kind: &pbsubstreams.Module_KindMap_{KindMap: &pbsubstreams.Module_KindMap{OutputType: "proto:x"}}, Output: &pbsubstreams.Module_Output{Type: "proto:x"}}
	}
	m2 := mapper("m2", src)
	m2.BlockFilter = &pbsubstreams.Module_BlockFilter{Module: "idx", Query: &pbsubstreams.Module_BlockFilter_QueryString{QueryString: "a"}}
	store := func(name string, in ...*pbsubstreams.Module_Input) *pbsubstreams.Module {
		return &pbsubstreams.Module{Name: name, BinaryEntrypoint: name, Inputs: in, Kind: &pbsubstreams.Module_KindStore_{KindStore: &pbsubstreams.Module_KindStore{UpdatePolicy: pbsubstreams.Module_KindStore_UPDATE_POLICY_SET, ValueType: "bytes"}}}
	}
	if graph == 1 {
		store2In := &pbsubstreams.Module_Input{Input: &pbsubstreams.Module_Input_Store_{Store: &pbsubstreams.Module_Input_Store{ModuleName: "s2", Mode: pbsubstreams.Module_Input_Store_GET}}}
		return &pbsubstreams.Modules{
			Modules: []*pbsubstreams.Module{
				{Name: "idx", BinaryEntrypoint: "idx", Inputs: []*pbsubstreams.Module_Input{src}, Kind: &pbsubstreams.Module_KindBlockIndex_{KindBlockIndex: &pbsubstreams.Module_KindBlockIndex{OutputType: "proto:sf.substreams.index.v1.Keys"}}, Output: &pbsubstreams.Module_Output{Type: "proto:sf.substreams.index.v1.Keys"}},
				mapper("m1", src),
				m2,
				store("s1", mapIn("m1")),
				store("s2", storeIn, mapIn("m1")),
				mapper("out", store2In, mapIn("m1"), mapIn("m2")),
			},
			Binaries: []*pbsubstreams.Binary{{Type: "wasm/rust-v1", Content: []byte{1}}},
		}
	}
	s1 := store("s1", mapIn("m1"))
	if graph == 4 {
		storeIn.Input.(*pbsubstreams.Module_Input_Store_).Store.Mode = pbsubstreams.Module_Input_Store_DELTAS
	}
	if graph == 3 {
		s1.Kind.(*pbsubstreams.Module_KindStore_).KindStore.UpdatePolicy = pbsubstreams.Module_KindStore_UPDATE_POLICY_APPEND
	}
	if graph == 6 {
		// a conjunction whose second key no block ever carries: the mapper never runs
		m2.BlockFilter.Query = &pbsubstreams.Module_BlockFilter_QueryString{QueryString: "a && b"}
	}
	outInputs := []*pbsubstreams.Module_Input{storeIn, mapIn("m1"), mapIn("m2")}
	if graph == 5 {
		// a sparse output module: it reads the store and the filtered mapper only, so it has no
		// input — and does not run — on the blocks the index excludes
		outInputs = []*pbsubstreams.Module_Input{storeIn, mapIn("m2")}
	}
	if graph == 2 {
		// a store filtered on the index: with no matching block in the segment every executor of its
		// stage may be excluded, and the job ends without streaming a block
		s1.BlockFilter = &pbsubstreams.Module_BlockFilter{Module: "idx", Query: &pbsubstreams.Module_BlockFilter_QueryString{QueryString: "a"}}
		// ... and the other module filtered on the same key starts inside the first segment
		m2.InitialBlock = 1
	}
	out := mapper("out", outInputs...)
	if graph == 7 {
		// the output module starts inside the first segment, after the store has been written
		out.InitialBlock = 1
	}
	return &pbsubstreams.Modules{
		Modules: []*pbsubstreams.Module{
			{Name: "idx", BinaryEntrypoint: "idx", Inputs: []*pbsubstreams.Module_Input{src}, Kind: &pbsubstreams.Module_KindBlockIndex_{KindBlockIndex: &pbsubstreams.Module_KindBlockIndex{OutputType: "proto:sf.substreams.index.v1.Keys"}}, Output: &pbsubstreams.Module_Output{Type: "proto:sf.substreams.index.v1.Keys"}},
			mapper("m1", src),
			m2,
			s1,
			out,
		},
		Binaries: []*pbsubstreams.Binary{{Type: "wasm/rust-v1", Content: []byte{1}}},
	}
}

// c07Job runs one tier2 job (the real Tier2Service.processRange: execution plan from the
// files present, pipeline, stores, cached outputs, end-of-stream flush) on the given object
// store and returns its error.
func c07Job(stateURL string, stage uint32, segment, segSize uint64, fake *c07Fake) error {
	_, blocksURL := sym.NewURLStore("blocks")
	wasm.RegisterModuleFactory("wazero", wasm.ModuleFactoryFunc(func(ctx context.Context, code []byte, typ string, reg *wasm.Registry) (wasm.Module, error) {
		return fake, nil
	}))
	s := &Tier2Service{logger: zap.NewNop(), blockExecutionTimeout: time.Minute}
	s.streamFactoryFuncOverride = func(ctx context.Context, h bstream.Handler, startBlockNum int64, stopBlockNum uint64, cursor string, finalBlocksOnly bool, cursorIsTarget bool, logger *zap.Logger, extraOpts ...stream.Option) (Streamable, error) {
		return &c07Stream{h: h, start: uint64(startBlockNum), stop: stopBlockNum}, nil
	}
	req := &pbssinternal.ProcessRangeRequest{
		SegmentNumber: segment, SegmentSize: segSize, Stage: stage, OutputModule: "out", Modules: c07Modules(fake.graph),
		MergedBlocksStore: blocksURL, StateStore: stateURL, StateStoreDefaultTag: "tag", BlockType: "sf.test.Block", MeteringConfig: "null://",
	}
	return s.processRange(context.Background(), req, func(resp substreams.ResponseFromAnyTier) error { return nil })
}

// VerifC07Tier2Job: a tier2 job for (stage, segment 0) run on top of any subset of the files
// that complete jobs over the same modules leave behind completes, and leaves exactly the
// files — names and bytes — a clean run leaves. The module outputs are symbolic bytes; on
// which blocks the mapper emits anything is symbolic too (sparse outputs take the
// skip-the-block-source path).
func VerifC07Tier2Job() {
	manifest.TestUseSimpleHash = true
	segSize := uint64(sym.Param("BLOCKS", 3))
	fake := &c07Fake{segSize: segSize, emit: sym.Byte("emit"), keys: sym.Byte("keys"), vals: sym.BytesN("vals", 2), wals: sym.BytesN("wals", 2)}
	sym.Assume(fake.emit < 1<<segSize)
	sym.Assume(fake.keys < 1<<segSize)
	if k := sym.Param("KEYS", -1); k >= 0 {
		fake.keys = byte(k)
	}
	// stage 0 runs on the first or the second segment (a partial store that does not start at
	// the module's first block); the last stage on the first segment, where the stores it reads
	// start empty (later segments read the snapshot the orchestrator squashes, outside a job)
	segment := uint64(0)
	// the jobs run on the cache, e.g.: stage 0 alone; stage 0 then the last stage; the last stage
	// alone (on the first segment a job depends on no earlier job, the scheduler may start it
	// first); the last stage then stage 0
	fake.graph = sym.Param("GRAPH", 0)
	orders := [][]uint32{{0}, {0, 1}, {1}, {1, 0}}
	stateOf := []string{"7331"} // hex of the store module a stage is run for: s1
	if fake.graph == 1 {
		orders = [][]uint32{{0}, {1}, {2}, {0, 1, 2}, {2, 1, 0}, {1, 0}, {2, 0}, {1, 2}}
		stateOf = []string{"7331", "7332"}
	}
	lastStage := uint32(len(stateOf))
	order := orders[sym.Choice("jobs", len(orders))]
	if len(order) == 1 && order[0] == 0 && sym.Param("SEGMENTS", 1) > 1 {
		segment = uint64(sym.Choice("segment", sym.Param("SEGMENTS", 1)))
	}
	ranStage := map[uint32]bool{}
	maxStage := uint32(0)
	for _, st := range order {
		ranStage[st] = true
		if st > maxStage {
			maxStage = st
		}
	}

	// the clean runs on an empty store: the stages up to the highest one involved, in order
	defer sym.RemoveURLStores()
	clean, cleanURL := sym.NewURLStore("clean")
	for st := uint32(0); st <= maxStage; st++ {
		if err := c07Job(cleanURL, st, segment, segSize, fake); err != nil {
			sym.Unreachable("clean-job-completes")
			return
		}
	}
	all := clean.Names()
	sym.Observe("clean-files", len(all))

	// any subset of those files, as a crash, a cancelled request or eviction leaves them
	dirty, dirtyURL := sym.NewURLStore("dirty")
	kept := 0
	for _, name := range all {
		if sym.Choice("keep", 2) == 1 {
			b, _ := clean.Get(name)
			dirty.Put(name, b)
			kept++
		}
	}
	if kept != 0 && kept != len(all) {
		sym.Reach("partial-cache")
	}
	// a job whose own result is already there returns at once
	for _, st := range order {
		if err := c07Job(dirtyURL, st, segment, segSize, fake); err != nil {
			sym.Unreachable("job-on-any-cache-subset-completes")
			return
		}
	}
	got := dirty.Names()
	// every file present afterwards is equivalent to the clean run's file (never a file computed
	// from a wrong state, never a half-written one, never a file a clean run does not leave).
	// On the first segment a store's snapshot is written as a partial by its own stage and as a
	// full snapshot by a later stage's job: the same logical file.
	canon := func(n string) string {
		if segment == 0 && strings.HasSuffix(n, ".kv") {
			return strings.TrimSuffix(n, ".kv") + ".partial"
		}
		return n
	}
	present := map[string]bool{}
	for _, name := range got {
		c := canon(name)
		present[c] = true
		a, ok := clean.Get(c)
		sym.Assert(ok, "no-file-a-clean-run-does-not-leave")
		if ok {
			b, _ := dirty.Get(name)
			c07SameFile(c, a, b)
		}
	}
	// ... and the results the jobs are run for are there: the store snapshot of stage 0, the
	// output module's file of the last stage
	for _, name := range all {
		wanted := ranStage[lastStage] && strings.HasPrefix(name, "tag/"+c07OutHash+"/outputs/")
		for st, h := range stateOf {
			if ranStage[uint32(st)] && strings.HasPrefix(name, "tag/"+h+"/states/") {
				wanted = true
			}
		}
		if wanted {
			sym.Assert(present[name], "job-leaves-the-result-it-is-run-for")
		}
	}
	sym.Reach("compared")
	_ = io.EOF
}
