package service

import (
	"context"
	"errors"
	"github.com/streamingfast/bstream"

	"github.com/streamingfast/substreams/orchestrator/plan"
	pbssinternal "github.com/streamingfast/substreams/pb/sf/substreams/intern/v2"
	pbsubstreamsrpc "github.com/streamingfast/substreams/pb/sf/substreams/rpc/v2"
	pbsubstreams "github.com/streamingfast/substreams/pb/sf/substreams/v1"
	"github.com/streamingfast/substreams/pipeline"
	"github.com/streamingfast/substreams/pipeline/exec"
	sym "github.com/streamingfast/substreams/zz_verifsym"
)

var c17Names = []string{"a", "b", "zz"} // zz is never defined: a dangling reference

// what a reference (map / store input, block filter) may name: a module, the dangling name, or nothing at all
var c17Refs = []string{"a", "b", "zz", ""}

func c17Kind(m *pbsubstreams.Module, k int) {
	switch k {
	case 0: // absent
	case 1:
		m.Kind = &pbsubstreams.Module_KindMap_{KindMap: &pbsubstreams.Module_KindMap{OutputType: "proto:x"}}
	case 2:
		m.Kind = &pbsubstreams.Module_KindStore_{KindStore: &pbsubstreams.Module_KindStore{UpdatePolicy: pbsubstreams.Module_KindStore_UPDATE_POLICY_SET, ValueType: "string"}}
	case 3:
		m.Kind = &pbsubstreams.Module_KindBlockIndex_{KindBlockIndex: &pbsubstreams.Module_KindBlockIndex{OutputType: "proto:keys"}}
	}
}

// c17Input draws one structurally arbitrary input.
func c17Input() *pbsubstreams.Module_Input {
	in := &pbsubstreams.Module_Input{}
	switch sym.Choice("input-kind", 5) {
	case 0: // oneof absent
	case 1:
		in.Input = &pbsubstreams.Module_Input_Params_{Params: &pbsubstreams.Module_Input_Params{Value: "p"}}
	case 2:
		types := []string{"sf.test.Block", "", "sf.substreams.v1.Clock", "other.Block"}
		in.Input = &pbsubstreams.Module_Input_Source_{Source: &pbsubstreams.Module_Input_Source{Type: types[sym.Choice("source-type", len(types))]}}
	case 3:
		in.Input = &pbsubstreams.Module_Input_Map_{Map: &pbsubstreams.Module_Input_Map{ModuleName: c17Refs[sym.Choice("ref", len(c17Refs))]}}
	case 4:
		in.Input = &pbsubstreams.Module_Input_Store_{Store: &pbsubstreams.Module_Input_Store{ModuleName: c17Refs[sym.Choice("ref", len(c17Refs))], Mode: pbsubstreams.Module_Input_Store_Mode(sym.I32("store-mode"))}}
	}
	return in
}

func c17Source() *pbsubstreams.Module_Input {
	return &pbsubstreams.Module_Input{Input: &pbsubstreams.Module_Input_Source_{Source: &pbsubstreams.Module_Input_Source{Type: "sf.test.Block"}}}
}

// c17Request builds a structurally arbitrary request; focus selects which
// dimension is explored in full (the others take well-formed values).
func c17Request() *pbsubstreamsrpc.Request {
	focus := sym.Param("FOCUS", 0)
	nmods := sym.Param("MODULES", 2)
	maxInputs := sym.Param("INPUTS", 1)
	req := &pbsubstreamsrpc.Request{}
	if focus == 0 {
		req.StartBlockNum = sym.I64("start")
		req.StopBlockNum = sym.U64("stop")
	} else {
		// the numeric dimensions are explored by FOCUS=0 (and by C12)
		req.StartBlockNum = 5
		if focus == 3 {
			req.StopBlockNum = uint64(sym.Choice("stop", 2)) * 8 // 0, 8 (below the cursor block 10)
		}
	}
	req.ProductionMode = sym.Choice("production", 2) == 1
	mods := &pbsubstreams.Modules{}

	// binaries
	binTypes := []string{"wasm/rust-v1", "wasip1/tinygo-v1", "garbage", "wasm/rust-v1+ext"}
	nb := 1
	if focus == 0 {
		nb = sym.Choice("binaries", 3)
	}
	for i := 0; i < nb; i++ {
		t := binTypes[0]
		if focus == 0 && i == nb-1 {
			t = binTypes[sym.Choice("binary-type", len(binTypes))]
		}
		mods.Binaries = append(mods.Binaries, &pbsubstreams.Binary{Type: t, Content: []byte{1}})
	}

	for i := 0; i < nmods; i++ {
		m := &pbsubstreams.Module{BinaryEntrypoint: "e"}
		m.InitialBlock = sym.U64("init")
		if focus == 0 {
			m.Name = c17Names[sym.Choice("name", 2)]
			c17Kind(m, sym.Choice("kind", 4))
			m.BinaryIndex = sym.U32("binary-index")
			m.Inputs = []*pbsubstreams.Module_Input{c17Source()}
		} else {
			m.Name = c17Names[i]
			// well-formed kinds: first module store or index or map by choice, others map
			if i == 0 && focus != 3 {
				c17Kind(m, 1+sym.Choice("kind", 3))
			} else {
				c17Kind(m, 1)
			}
		}
		if focus == 1 {
			if i == 0 && nmods > 1 {
				m.Inputs = []*pbsubstreams.Module_Input{c17Source()}
			} else {
				n := sym.Choice("ninputs", maxInputs+1)
				for j := 0; j < n; j++ {
					m.Inputs = append(m.Inputs, c17Input())
				}
			}
		}
		if focus == 3 {
			m.Inputs = []*pbsubstreams.Module_Input{c17Source()}
		}
		if focus == 2 {
			m.Inputs = []*pbsubstreams.Module_Input{c17Source()}
			// a params value that happens to be spelled like a module (the filter's, or another)
			if pv := sym.Choice("params-value", 3); pv > 0 {
				m.Inputs = append([]*pbsubstreams.Module_Input{{Input: &pbsubstreams.Module_Input_Params_{Params: &pbsubstreams.Module_Input_Params{Value: c17Names[pv-1]}}}}, m.Inputs...)
			}
			if sym.Choice("filter", 2) == 1 {
				bf := &pbsubstreams.Module_BlockFilter{Module: c17Refs[sym.Choice("filter-ref", len(c17Refs))]}
				switch sym.Choice("query", 3) {
				case 0:
				case 1:
					bf.Query = &pbsubstreams.Module_BlockFilter_QueryString{QueryString: "k"}
				case 2:
					bf.Query = &pbsubstreams.Module_BlockFilter_QueryFromParams{QueryFromParams: &pbsubstreams.Module_QueryFromParams{}}
				}
				m.BlockFilter = bf
			}
		}
		mods.Modules = append(mods.Modules, m)
	}
	req.Modules = mods
	outs := []string{"a", "b", "zz", ""}
	if focus == 0 {
		if sym.Choice("modules-absent", 2) == 1 {
			req.Modules = nil
		}
		req.OutputModule = outs[sym.Choice("output", len(outs))]
	} else {
		req.OutputModule = outs[sym.Choice("output", 2)]
	}
	return req
}

// VerifC17Request: a structurally arbitrary request is rejected with an error
// or accepted; validation, graph construction, hashing, staging, resolution and
// planning never panic and terminate (a Go panic escaping this function or an
// exhausted step budget is the violation).
func VerifC17Request() {
	req := c17Request()
	// Tier1Service.Blocks
	if req.Modules == nil {
		sym.Reach("no-modules")
		return
	}
	if err := ValidateTier1Request(req, "sf.test.Block"); err != nil {
		sym.Reach("rejected-by-validation")
		return
	}
	execGraph, err := exec.NewOutputModuleGraph(req.OutputModule, req.ProductionMode, req.Modules, 0)
	if err != nil {
		sym.Reach("rejected-by-graph")
		return
	}
	_ = execGraph.ModuleHashes().Get(req.OutputModule)
	// Tier1Service.blocks (first streamable block 0)
	getLib := func() (uint64, error) {
		if sym.Choice("lib-known", 2) == 0 {
			return 0, errors.New("no final block")
		}
		return sym.U64("lib"), nil
	}
	getHead := func() (uint64, error) {
		if sym.Choice("head-known", 2) == 0 {
			return 0, errors.New("no head block")
		}
		return sym.U64("head"), nil
	}
	size := uint64(10)
	// the cursor: absent, or one of a few malformed / odd texts (FOCUS=3): every shape of
	// text the cursor decoder distinguishes, and a well-formed cursor whose fork resolver
	// answers anything
	if sym.Param("FOCUS", 0) == 3 {
		// built through the real Cursor.ToOpaque: ids containing the field separator make the
		// decoder see too many fields, an empty id an empty field; steps outside the known set
		ids := []string{"aa", "", "a:b"}
		steps := []bstream.StepType{bstream.StepNew, bstream.StepUndo, bstream.StepNewIrreversible, bstream.StepType(0)}
		switch k := sym.Choice("cursor", 3); k {
		case 1:
			req.StartCursor = "not an opaque cursor"
		case 2:
			blk := bstream.NewBlockRef(ids[sym.Choice("block-id", len(ids))], 5+uint64(sym.Choice("block-num", 2))*5) // 5, 10
			lib := bstream.NewBlockRef(ids[sym.Choice("lib-id", 2)], uint64(sym.Choice("lib-num", 3))*5)              // 0, 5, 10
			var head bstream.BlockRef = blk
			if sym.Param("HEADS", 1) == 2 && sym.Choice("head", 2) == 1 {
				head = bstream.NewBlockRef("hh", 12)
			}
			req.StartCursor = (&bstream.Cursor{Step: steps[sym.Choice("step", len(steps))], Block: blk, LIB: lib, HeadBlock: head}).ToOpaque()
		}
	}
	resolve := func(ctx context.Context, c *bstream.Cursor) (bstream.BlockRef, bstream.BlockRef, error) {
		switch sym.Choice("resolver", 3) {
		case 0:
			return nil, nil, errors.New("cannot resolve")
		case 1:
			return nil, bstream.NewBlockRef("hh", sym.U64("current-head")), nil
		}
		return bstream.NewBlockRef("jj", sym.U64("junction")), bstream.NewBlockRef("hh", sym.U64("current-head")), nil
	}
	details, _, err := pipeline.BuildRequestDetails(context.Background(), req, getLib, resolve, getHead, size)
	if err != nil {
		sym.Reach("rejected-by-resolution")
		return
	}
	if details.ResolvedStartBlockNum == req.StopBlockNum && req.StopBlockNum != 0 {
		sym.Reach("rejected-start-equals-stop")
		return
	}
	if err := execGraph.ValidateRequestStartBlock(details.ResolvedStartBlockNum); err != nil {
		sym.Reach("rejected-start-block")
		return
	}
	scheduleStores := execGraph.StagedUsedModules()[0].LastLayer().IsStoreLayer()
	var lowestStoresInitBlock uint64
	if scheduleStores {
		lowestStoresInitBlock = *execGraph.LowestStoresInitBlock()
	}
	_, err = plan.BuildTier1RequestPlan(details.ProductionMode, size, execGraph.LowestInitBlock(), lowestStoresInitBlock,
		details.ResolvedStartBlockNum, details.LinearHandoffBlockNum, details.StopBlockNum, scheduleStores)
	if err != nil {
		sym.Reach("rejected-by-plan")
		return
	}
	sym.Assert(true, "accepted")
	sym.Reach("accepted")
}

// VerifC17Tier2: a structurally arbitrary internal (tier2) request is rejected
// or accepted; validation, graph construction and the stage-indexed lookups
// that Tier2Service.processRange performs next never panic.
func VerifC17Tier2() {
	mods := &pbsubstreams.Modules{Binaries: []*pbsubstreams.Binary{{Type: "wasm/rust-v1", Content: []byte{1}}}}
	a := &pbsubstreams.Module{Name: "a", BinaryEntrypoint: "e", InitialBlock: sym.U64("init"), Inputs: []*pbsubstreams.Module_Input{c17Source()}}
	c17Kind(a, 1+sym.Choice("kind-a", 3))
	b := &pbsubstreams.Module{Name: "b", BinaryEntrypoint: "e", InitialBlock: sym.U64("init"), Inputs: []*pbsubstreams.Module_Input{c17Source()}}
	c17Kind(b, 1)
	if sym.Choice("b-reads-a", 2) == 1 {
		b.Inputs = append(b.Inputs, c17Input())
	}
	mods.Modules = []*pbsubstreams.Module{a, b}
	str := func(name string) string {
		if sym.Choice(name, 2) == 1 {
			return "x"
		}
		return ""
	}
	req := &pbssinternal.ProcessRangeRequest{
		StopBlockNum:         sym.U64("legacy-stop"),
		OutputModule:         []string{"a", "b", "zz", ""}[sym.Choice("output", 4)],
		Stage:                sym.U32("stage"),
		MeteringConfig:       str("metering"),
		BlockType:            "sf.test.Block",
		StateStore:           str("state-store"),
		MergedBlocksStore:    str("merged-store"),
		SegmentSize:          sym.U64("segment-size"),
		SegmentNumber:        sym.U64("segment-number"),
		FirstStreamableBlock: sym.U64("first-streamable"),
	}
	if sym.Choice("modules-absent", 2) == 0 {
		req.Modules = mods
	}
	if err := ValidateTier2Request(req); err != nil {
		sym.Reach("rejected-by-validation")
		return
	}
	// Tier2Service.processRange
	execGraph, err := exec.NewOutputModuleGraph(req.OutputModule, true, req.Modules, req.FirstStreamableBlock)
	if err != nil {
		sym.Reach("rejected-by-graph")
		return
	}
	// (mirrored glue of processRange, including its stage range guard)
	if int(req.Stage) >= len(execGraph.StagedUsedModules()) {
		sym.Reach("rejected-stage")
		return
	}
	details := pipeline.BuildRequestDetailsFromSubrequest(req)
	_ = execGraph.ModuleHashes().Get(details.OutputModule)
	_ = req.StartBlock()
	_ = req.StopBlock()
	_ = execGraph.UsedModulesUpToStage(int(req.Stage))
	_ = execGraph.UsedIndexesModulesUpToStage(int(req.Stage))
	sym.Assert(true, "accepted")
	sym.Reach("accepted")
}
