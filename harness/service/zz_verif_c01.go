package service

import (
	"strings"

	"github.com/streamingfast/substreams/manifest"
	pboutput "github.com/streamingfast/substreams/storage/execout/pb"
	sym "github.com/streamingfast/substreams/zz_verifsym"
)

// c01Reference is a single sequential execution of the scripted module graph of c07Fake
// (idx, m1, m2 filtered on idx, store s1, out reading s1/m1/m2) over the blocks 0..n-1,
// written without any of the engine's code: what "out" must emit on each block.
func c01Reference(f *c07Fake, n uint64) [][]byte {
	var k [2][]byte
	out := make([][]byte, n)
	for b := uint64(0); b < n; b++ {
		var m1, m2 []byte
		if f.emit&(1<<b) != 0 {
			m1 = []byte{f.vals[b%uint64(len(f.vals))]}
		}
		if f.keys&(1<<b) != 0 {
			m2 = []byte{f.wals[b%uint64(len(f.wals))]}
		}
		if m1 != nil {
			k[b%2] = m1 // the store's write at block b is visible to the later stage at block b
		}
		// m1 runs on every block (its input is the block itself); a module that ran and emitted
		// nothing is an empty input, not a skipped one: out runs on every block too
		o := append([]byte{byte(len(k[0])), byte(len(k[1])), byte(len(m1)), byte(len(m2))}, k[0]...)
		o = append(o, k[1]...)
		o = append(o, m1...)
		out[b] = append(o, m2...)
	}
	return out
}

// VerifC01Segments: the output module's per-block payloads computed by parallel tier2 segment
// jobs (production mode: the last-stage job of segment 0, then of segment 1, which starts from
// the store snapshot the first one left; each through the real Tier2Service.processRange) are
// those of a single sequential execution of the module graph from its first block — on an
// empty cache, and again on any subset of the files the first pass left (cached outputs,
// indexes, store snapshots: the strategy "served from cache"), which must also leave the
// payload files unchanged.
func VerifC01Segments() {
	manifest.TestUseSimpleHash = true
	segSize := uint64(sym.Param("BLOCKS", 2))
	total := 2 * segSize
	fake := &c07Fake{segSize: 8, emit: sym.Byte("emit"), keys: sym.Byte("keys"), vals: sym.BytesN("vals", 2), wals: sym.BytesN("wals", 2)}
	sym.Assume(fake.emit < 1<<total)
	sym.Assume(fake.keys < 1<<total)
	if k := sym.Param("KEYS", -1); k >= 0 {
		fake.keys = byte(k)
	}
	want := c01Reference(fake, total)

	defer sym.RemoveURLStores()
	files, url := sym.NewURLStore("cache")
	check := func(pass string) bool {
		for seg := uint64(0); seg < 2; seg++ {
			if err := c07Job(url, 1, seg, segSize, fake); err != nil {
				sym.Unreachable("segment-job-completes")
				return false
			}
		}
		for seg := uint64(0); seg < 2; seg++ {
			var content []byte
			found := false
			for _, n := range files.Names() {
				if strings.HasPrefix(n, "tag/"+c07OutHash+"/outputs/") && strings.Contains(n, c01RangeName(seg*segSize, (seg+1)*segSize)) {
					content, found = files.Get(n)
				}
			}
			if !found {
				sym.Unreachable("segment-job-leaves-the-output-file")
				return false
			}
			m := &pboutput.Map{}
			if m.UnmarshalFast(content) != nil {
				sym.Unreachable("output-file-decodes")
				return false
			}
			n := 0
			for b := seg * segSize; b < (seg+1)*segSize; b++ {
				var got []byte
				present := false
				for _, it := range m.Kv {
					if it.BlockNum == b {
						sym.Assert(!present, "no-block-twice-in-the-outputs")
						got, present = it.Payload, true
						sym.Assert(it.BlockId == c07ID(b), "output-carries-its-block-id")
					}
				}
				if present {
					n++
				}
				// a block without payload may be left out; a payload is never altered or invented
				if want[b] == nil {
					sym.Assert(len(got) == 0, "no-invented-payload")
				} else {
					sym.Assert(present, "no-missing-payload")
					sym.Assert(sym.EqBytes(got, want[b]), "payload-of-a-sequential-execution")
				}
			}
			sym.Assert(n == len(m.Kv), "no-output-outside-the-segment")
		}
		sym.Reach(pass)
		return true
	}
	if !check("parallel-on-empty-cache") {
		return
	}
	// second request over the same range: any subset of the cache survives, except that the
	// store snapshot at the start of segment 1 is there whenever segment 1's job runs (the
	// scheduler starts a job only once the stores it reads are complete up to its start)
	removed := 0
	perFile := sym.Param("EVICT", 0) == 1
	evictGroup := map[string]bool{}
	for _, n := range files.Names() {
		if strings.Contains(n, "/states/") && strings.HasSuffix(n, ".kv") && strings.Contains(n, c01Pad(segSize)+"-") {
			continue
		}
		evict := false
		if perFile {
			evict = sym.Choice("evict", 2) == 1
		} else {
			// per module and kind of file (both segments together)
			cut := 0
			for i := 0; i < len(n); i++ {
				if n[i] == '/' {
					cut = i
				}
			}
			g := n[:cut]
			if _, seen := evictGroup[g]; !seen {
				evictGroup[g] = sym.Choice("evict", 2) == 1
			}
			evict = evictGroup[g]
		}
		if evict {
			files.Delete(n)
			removed++
		}
	}
	if removed > 0 {
		sym.Reach("partial-cache")
	}
	check("served-from-cache")
}

func c01Pad(n uint64) string {
	s := []byte("0000000000")
	for i := len(s) - 1; n > 0; i-- {
		s[i] = byte('0' + n%10)
		n /= 10
	}
	return string(s)
}

func c01RangeName(from, to uint64) string { return c01Pad(from) + "-" + c01Pad(to) }
