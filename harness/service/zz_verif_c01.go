package service

import (
	"context"
	"strings"
	"time"

	"github.com/streamingfast/bstream"
	"github.com/streamingfast/bstream/stream"
	"github.com/streamingfast/dstore"
	"github.com/streamingfast/substreams"
	"github.com/streamingfast/substreams/block"
	"github.com/streamingfast/substreams/manifest"
	orchexecout "github.com/streamingfast/substreams/orchestrator/execout"
	"github.com/streamingfast/substreams/orchestrator/response"
	pbsubstreamsrpc "github.com/streamingfast/substreams/pb/sf/substreams/rpc/v2"
	pbsubstreams "github.com/streamingfast/substreams/pb/sf/substreams/v1"
	"github.com/streamingfast/substreams/pipeline/exec"
	"github.com/streamingfast/substreams/service/config"
	"github.com/streamingfast/substreams/storage/execout"
	pboutput "github.com/streamingfast/substreams/storage/execout/pb"
	"github.com/streamingfast/substreams/storage/store"
	"github.com/streamingfast/substreams/wasm"
	sym "github.com/streamingfast/substreams/zz_verifsym"
	"go.uber.org/zap"
)

// c01Reference is a single sequential execution of the scripted module graph of c07Fake
// (idx, m1, m2 filtered on idx, store s1, out reading s1/m1/m2) over the blocks 0..n-1,
// written without any of the engine's code: what "out" must emit on each block.
func c01Reference(f *c07Fake, n uint64) [][]byte {
	var k [2][]byte
	var had [2]bool
	out := make([][]byte, n)
	for b := uint64(0); b < n; b++ {
		var m1, m2 []byte
		if f.emit&(1<<b) != 0 {
			m1 = f.m1Value(b)
		}
		if f.keys&(1<<b) != 0 && f.graph != 6 {
			m2 = []byte{f.wals[b%uint64(len(f.wals))]}
		}
		if m1 != nil { // the store's write at block b is visible to the later stage at block b
			if f.graph == 3 {
				k[b%2] = append(append([]byte{}, k[b%2]...), m1...)
			} else {
				k[b%2] = m1
			}
		}
		// m1 runs on every block (its input is the block itself); a module that ran and emitted
		// nothing is an empty input, not a skipped one: out runs on every block too
		if f.graph == 7 && b < 1 {
			continue // out starts at block 1
		}
		if f.graph == 5 {
			// out reads the store and m2 only: without m2 it has no input and does not run
			if m2 == nil {
				continue
			}
			o := append([]byte{byte(len(k[0])), byte(len(k[1])), 0, byte(len(m2))}, k[0]...)
			o = append(o, k[1]...)
			out[b] = append(o, m2...)
			continue
		}
		if f.graph == 4 {
			// out reads the store's deltas of the block: one create/update when m1 emitted, none otherwise
			o := []byte{0}
			if m1 != nil {
				op := byte(pbsubstreams.StoreDelta_UPDATE)
				if !had[b%2] {
					op = byte(pbsubstreams.StoreDelta_CREATE)
				}
				had[b%2] = true
				o = append([]byte{1, op, 2, byte(len(m1))}, m1...)
			}
			o = append(o, byte(len(m1)), byte(len(m2)))
			o = append(o, m1...)
			out[b] = append(o, m2...)
			continue
		}
		o := append([]byte{byte(len(k[0])), byte(len(k[1])), byte(len(m1)), byte(len(m2))}, k[0]...)
		o = append(o, k[1]...)
		o = append(o, m1...)
		out[b] = append(o, m2...)
	}
	return out
}

// VerifC01Segments: the output module's per-block payloads computed by parallel tier2 segment
// jobs (production mode: the last-stage job of segment 0, then of segment 1, which starts from
// the store snapshot the first one left; each through the real Tier2Service.processRange) are
// those of a single sequential execution of the module graph from its first block — on an
// empty cache, and again on any subset of the files the first pass left (cached outputs,
// indexes, store snapshots: the strategy "served from cache"), which must also leave the
// payload files unchanged.
func VerifC01Segments() {
	manifest.TestUseSimpleHash = true
	segSize := uint64(sym.Param("BLOCKS", 2))
	total := 2 * segSize
	fake := &c07Fake{segSize: 8, emit: sym.Byte("emit"), keys: sym.Byte("keys"), vals: sym.BytesN("vals", 2), wals: sym.BytesN("wals", 2)}
	sym.Assume(fake.emit < 1<<total)
	sym.Assume(fake.keys < 1<<total)
	if k := sym.Param("KEYS", -1); k >= 0 {
		fake.keys = byte(k)
	}
	want := c01Reference(fake, total)

	defer sym.RemoveURLStores()
	files, url := sym.NewURLStore("cache")
	check := func(pass string) bool {
		for seg := uint64(0); seg < 2; seg++ {
			if err := c07Job(url, 1, seg, segSize, fake); err != nil {
				sym.Unreachable("segment-job-completes")
				return false
			}
		}
		for seg := uint64(0); seg < 2; seg++ {
			if !c01CheckSegment(files, seg, segSize, want) {
				return false
			}
		}
		sym.Reach(pass)
		return true
	}
	if !check("parallel-on-empty-cache") {
		return
	}
	// second request over the same range: any subset of the cache survives, except that the
	// store snapshot at the start of segment 1 is there whenever segment 1's job runs (the
	// scheduler starts a job only once the stores it reads are complete up to its start)
	removed := 0
	perFile := sym.Param("EVICT", 0) == 1
	evictGroup := map[string]bool{}
	for _, n := range files.Names() {
		if strings.Contains(n, "/states/") && strings.HasSuffix(n, ".kv") && strings.Contains(n, c01Pad(segSize)+"-") {
			continue
		}
		evict := false
		if perFile {
			evict = sym.Choice("evict", 2) == 1
		} else {
			// per module and kind of file (both segments together)
			cut := 0
			for i := 0; i < len(n); i++ {
				if n[i] == '/' {
					cut = i
				}
			}
			g := n[:cut]
			if _, seen := evictGroup[g]; !seen {
				evictGroup[g] = sym.Choice("evict", 2) == 1
			}
			evict = evictGroup[g]
		}
		if evict {
			files.Delete(n)
			removed++
		}
	}
	if removed > 0 {
		sym.Reach("partial-cache")
	}
	check("served-from-cache")
}

// c01OutStartsLate: GRAPH=7, the output module starts at block 1.
var c01OutStartsLate bool

func c01Pad(n uint64) string {
	s := []byte("0000000000")
	for i := len(s) - 1; n > 0; i-- {
		s[i] = byte('0' + n%10)
		n /= 10
	}
	return string(s)
}

func c01RangeName(from, to uint64) string { return c01Pad(from) + "-" + c01Pad(to) }

// c01Squasher stands for the orchestrator's squasher of the store s1 (orchestrator/stage
// singleSquash, which the executor cannot run: it selects on channels): one full store kept
// across segments; for each segment, the full snapshot at the segment's end if it exists,
// else the segment's partial merged into the store (the real Merge), saved (the real Save)
// and the partial deleted.
type c01Squasher struct {
	cfg  *store.Config
	full *store.FullKV
}

func c01NewSquasher(url string, policy pbsubstreams.Module_KindStore_UpdatePolicy) *c01Squasher {
	st, err := dstore.NewStore(url, "zst", "zstd", false)
	if err != nil {
		return nil
	}
	sub, err := st.SubStore("tag")
	if err != nil {
		return nil
	}
	cfg, err := store.NewConfig("s1", 0, "7331", policy, "bytes", sub)
	if err != nil {
		return nil
	}
	return &c01Squasher{cfg: cfg, full: cfg.NewFullKV(zap.NewNop())}
}

func (q *c01Squasher) squash(start, end uint64) bool {
	ctx := context.Background()
	if exists, err := q.cfg.ExistsFullKV(ctx, end); err != nil {
		return false
	} else if exists {
		next := q.cfg.NewFullKV(zap.NewNop())
		if next.Load(ctx, store.NewCompleteFileInfo("s1", 0, end)) != nil {
			return false
		}
		q.full = next
		return true
	}
	file := store.NewPartialFileInfo("s1", start, end)
	partial := q.cfg.NewPartialKV(start, zap.NewNop())
	if partial.Load(ctx, file) != nil {
		return false
	}
	if q.full.Merge(partial) != nil {
		return false
	}
	_, w, err := q.full.Save(end)
	if err != nil || w.Write(ctx) != nil {
		return false
	}
	return partial.DeleteStore(ctx, file) == nil
}

// VerifC01Staged: the whole production-mode back-fill of SEGS segments as the orchestrator
// runs it — per segment the stage-0 job (partial store), the squash of the partial into the
// running full store (snapshot at each boundary), then per segment the last-stage job starting
// from that snapshot — gives the output module the payloads of one sequential execution; and
// again after any subset of the cache (per module and kind of file) was evicted. Set-policy or
// append-policy store (GRAPH 0 / 3).
func VerifC01Staged() {
	manifest.TestUseSimpleHash = true
	segSize := uint64(sym.Param("BLOCKS", 2))
	nSeg := uint64(sym.Param("SEGS", 3))
	total := nSeg * segSize
	fake := &c07Fake{segSize: 8, valLen: sym.Param("VALLEN", 1), graph: sym.Param("GRAPH", 0), emit: sym.Byte("emit"), keys: byte(sym.Param("KEYS", 6)), vals: sym.BytesN("vals", 2), wals: sym.BytesN("wals", 2)}
	sym.Assume(fake.emit < 1<<total)
	if sym.Param("DENSE", 0) == 1 {
		// every block writes the store: consecutive segments all touch both keys
		sym.Assume(fake.emit == 1<<total-1)
	}
	policy := pbsubstreams.Module_KindStore_UPDATE_POLICY_SET
	if fake.graph == 3 {
		policy = pbsubstreams.Module_KindStore_UPDATE_POLICY_APPEND
	}
	want := c01Reference(fake, total)
	c01OutStartsLate = fake.graph == 7

	// the client's request starts at any block of the range (DELIVER=1)
	// and stops at any later block (the files are written for whole segments; the range read
	// from them ends at the request's stop block)
	reqStart, reqStop := uint64(0), total
	if sym.Param("DELIVER", 0) == 1 {
		reqStart = uint64(sym.Choice("request-start", int(total)))
		reqStop = reqStart + 1 + uint64(sym.Choice("request-length", int(total-reqStart)))
	}

	defer sym.RemoveURLStores()
	files, url := sym.NewURLStore("cache")
	pass := func(tag string) bool {
		for seg := uint64(0); seg < nSeg; seg++ {
			if err := c07Job(url, 0, seg, segSize, fake); err != nil {
				sym.Unreachable("stage-0-job-completes")
				return false
			}
		}
		q := c01NewSquasher(url, policy)
		if q == nil {
			sym.Unreachable("squasher-set-up")
			return false
		}
		for seg := uint64(0); seg < nSeg; seg++ {
			if !q.squash(seg*segSize, (seg+1)*segSize) {
				sym.Unreachable("squash-completes")
				return false
			}
		}
		for seg := uint64(0); seg < nSeg; seg++ {
			if err := c07Job(url, 1, seg, segSize, fake); err != nil {
				sym.Unreachable("last-stage-job-completes")
				return false
			}
		}
		for seg := uint64(0); seg < nSeg; seg++ {
			if !c01CheckSegment(files, seg, segSize, want) {
				return false
			}
		}
		if sym.Param("DELIVER", 0) == 1 && !c01Deliver(url, fake.graph, segSize, reqStart, reqStop, total, want) {
			return false
		}
		sym.Reach(tag)
		return true
	}
	if !pass("parallel-on-empty-cache") {
		return
	}
	if sym.Param("EVICT", 0) < 0 {
		return
	}
	removed := 0
	evictGroup := map[string]bool{}
	for _, n := range files.Names() {
		cut := 0
		for i := 0; i < len(n); i++ {
			if n[i] == '/' {
				cut = i
			}
		}
		g := n[:cut]
		if _, seen := evictGroup[g]; !seen {
			evictGroup[g] = sym.Choice("evict", 2) == 1
		}
		if evictGroup[g] {
			files.Delete(n)
			removed++
		}
	}
	if removed > 0 {
		sym.Reach("partial-cache")
	}
	pass("served-from-cache")
}

// c01CheckSegment decodes the output module's file of one segment and compares it block by
// block with the sequential reference.
func c01CheckSegment(files *sym.MemStore, seg, segSize uint64, want [][]byte) bool {
	var content []byte
	found := false
	for _, n := range files.Names() {
		from := seg * segSize
		if want[from] == nil && from+1 < (seg+1)*segSize && c01OutStartsLate {
			from++ // the output module's first block is inside the segment: its file starts there
		}
		if strings.HasPrefix(n, "tag/"+c07OutHash+"/outputs/") && strings.Contains(n, c01RangeName(from, (seg+1)*segSize)) {
			content, found = files.Get(n)
		}
	}
	if !found {
		sym.Unreachable("segment-job-leaves-the-output-file")
		return false
	}
	m := &pboutput.Map{}
	if m.UnmarshalFast(content) != nil {
		sym.Unreachable("output-file-decodes")
		return false
	}
	n := 0
	for b := seg * segSize; b < (seg+1)*segSize; b++ {
		var got []byte
		present := false
		for _, it := range m.Kv {
			if it.BlockNum == b {
				sym.Assert(!present, "no-block-twice-in-the-outputs")
				got, present = it.Payload, true
				sym.Assert(it.BlockId == c07ID(b), "output-carries-its-block-id")
			}
		}
		if present {
			n++
		}
		// a block without payload may be left out; a payload is never altered or invented
		if want[b] == nil {
			sym.Assert(len(got) == 0, "no-invented-payload")
		} else {
			sym.Assert(present, "no-missing-payload")
			sym.Assert(sym.EqBytes(got, want[b]), "payload-of-a-sequential-execution")
		}
	}
	sym.Assert(n == len(m.Kv), "no-output-outside-the-segment")
	return true
}

// c01Deliver streams the output module's cached files to a client the way tier1 does for the
// back-filled part of a production-mode request (orchestrator.BuildParallelProcessor sets the
// walker up; Scheduler.Update drives it on MsgDownloadSegment / MsgFileDownloaded): the real
// execout Walker over the real FileWalker, from the request's start block, and checks the
// sequence of (block number, block id, payload) the response function receives against the
// sequential reference.
func c01Deliver(url string, graph int, segSize, start, stop, total uint64, want [][]byte) bool {
	st, err := dstore.NewStore(url, "zst", "zstd", false)
	if err != nil {
		return false
	}
	sub, err := st.SubStore("tag")
	if err != nil {
		return false
	}
	g, err := exec.NewOutputModuleGraph("out", true, c07Modules(graph), 0)
	if err != nil {
		return false
	}
	cfgs, err := execout.NewConfigs(sub, g.UsedModules(), g.ModuleHashes(), segSize, 0, zap.NewNop())
	if err != nil {
		return false
	}
	var got []*pbsubstreamsrpc.BlockScopedData
	resp := func(r substreams.ResponseFromAnyTier) error {
		if m, ok := r.(*pbsubstreamsrpc.Response); ok {
			if d := m.GetBlockScopedData(); d != nil {
				got = append(got, d)
			}
		}
		return nil
	}
	// plan.RequestPlan.ReadOutSegmenter: segments from the write range's start (the segment
	// boundary at or below the request's start) to the end of the back-filled range
	fw := cfgs.NewFileWalker("out", block.NewSegmenter(segSize, start-start%segSize, total))
	w := orchexecout.NewWalker(context.Background(), g.OutputModule(), fw, block.NewRange(start, stop), response.New(resp))
	for steps := uint64(0); !w.IsCompleted(); steps++ {
		if steps > total {
			sym.Unreachable("walker-terminates")
			return false
		}
		switch w.CmdDownloadCurrentSegment(0)().(type) {
		case orchexecout.MsgFileDownloaded:
			w.NextSegment()
		default:
			sym.Unreachable("every-segment-file-is-there-and-loads")
			return false
		}
	}
	c01CheckDelivered(got, start, stop, want)
	sym.Reach("delivered")
	return true
}

// VerifC01Linear: the same module graph executed linearly — the real Tier1Service.blocks in
// development mode from the modules' first block (no back-processing, no orchestrator: the
// pipeline executes every block as it arrives) — sends the client, block by block, exactly
// the payloads of the sequential reference; together with VerifC01Staged (parallel jobs,
// cache, walker against the same reference) this is "linear == parallel == cached".
func VerifC01Linear() {
	manifest.TestUseSimpleHash = true
	total := uint64(sym.Param("BLOCKS", 4))
	fake := &c07Fake{segSize: 8, valLen: sym.Param("VALLEN", 1), graph: sym.Param("GRAPH", 0), emit: sym.Byte("emit"), keys: sym.Byte("keys"), vals: sym.BytesN("vals", 2), wals: sym.BytesN("wals", 2)}
	sym.Assume(fake.emit < 1<<total)
	sym.Assume(fake.keys < 1<<total)
	want := c01Reference(fake, total)

	defer sym.RemoveURLStores()
	_, url := sym.NewURLStore("cache")
	base, err := dstore.NewStore(url, "zst", "zstd", false)
	if err != nil {
		sym.Unreachable("store-opens")
		return
	}
	wasm.RegisterModuleFactory("wazero", wasm.ModuleFactoryFunc(func(ctx context.Context, code []byte, typ string, reg *wasm.Registry) (wasm.Module, error) {
		return fake, nil
	}))
	s := &Tier1Service{
		blockType:             "sf.test.Block",
		blockExecutionTimeout: time.Minute,
		logger:                zap.NewNop(),
		failedRequests:        map[string]*recordedFailure{},
		runtimeConfig:         config.RuntimeConfig{SegmentSize: uint64(sym.Param("SEGSIZE", 2)), DefaultParallelSubrequests: 1, BaseObjectStore: base, DefaultCacheTag: "tag"},
		getRecentFinalBlock:   func() (uint64, error) { return 0, nil },
		getHeadBlock:          func() (uint64, error) { return 0, nil },
		resolveCursor: func(ctx context.Context, cursor *bstream.Cursor) (reorgJunctionBlock, head bstream.BlockRef, err error) {
			return nil, nil, nil
		},
	}
	s.streamFactoryFunc = func(ctx context.Context, h bstream.Handler, startBlockNum int64, stopBlockNum uint64, cursor string, finalBlocksOnly bool, cursorIsTarget bool, logger *zap.Logger, extraOpts ...stream.Option) (Streamable, error) {
		return &c07Stream{h: h, start: uint64(startBlockNum), stop: stopBlockNum}, nil
	}
	mods := c07Modules(fake.graph)
	graph, err := exec.NewOutputModuleGraph("out", false, mods, 0)
	if err != nil {
		sym.Unreachable("graph-ok")
		return
	}
	var got []*pbsubstreamsrpc.BlockScopedData
	resp := func(r substreams.ResponseFromAnyTier) error {
		if m, ok := r.(*pbsubstreamsrpc.Response); ok {
			if d := m.GetBlockScopedData(); d != nil {
				got = append(got, d)
			}
		}
		return nil
	}
	// the request starts at the modules' first block or, with START=1, at any block of the first
	// segment: the blocks below it are executed (the stores need them) but not sent
	start := uint64(0)
	if sym.Param("START", 0) == 1 {
		start = uint64(sym.Choice("request-start", int(s.runtimeConfig.SegmentSize)))
		if start >= total {
			return
		}
	}
	req := &pbsubstreamsrpc.Request{StartBlockNum: int64(start), StopBlockNum: total, Modules: mods, OutputModule: "out", ProductionMode: false}
	if err := s.blocks(context.Background(), req, graph, resp); err != nil {
		sym.Unreachable("linear-request-completes")
		return
	}
	c01CheckDelivered(got, start, total, want)
	sym.Reach("linear-delivered")
}

// c01CheckDelivered: each block of [start, stop) at most once, in order; a block whose output
// is empty may come without payload or not at all; a payload is exactly the reference's.
func c01CheckDelivered(got []*pbsubstreamsrpc.BlockScopedData, start, total uint64, want [][]byte) {
	next := start
	for _, d := range got {
		b := d.Clock.Number
		sym.Assert(b >= next && b < total, "client-receives-blocks-of-the-range-in-order")
		if b < next || b >= total {
			break
		}
		for ; next < b; next++ {
			sym.Assert(want[next] == nil, "no-missing-payload")
		}
		next = b + 1
		sym.Assert(d.Clock.Id == c07ID(b), "client-receives-the-blocks-id")
		var payload []byte
		if d.Output != nil {
			sym.Assert(d.Output.Name == "out", "client-receives-the-output-module")
			if d.Output.MapOutput != nil {
				payload = d.Output.MapOutput.Value
			}
		}
		if want[b] == nil {
			sym.Assert(len(payload) == 0, "no-invented-payload")
		} else {
			sym.Assert(sym.EqBytes(payload, want[b]), "client-receives-the-payload-of-a-sequential-execution")
		}
	}
	for ; next < total; next++ {
		sym.Assert(want[next] == nil, "no-missing-payload")
	}
}
