#!/bin/sh
# usage: ./check.sh <property> <quick|thorough>
# Rebuilds the driver if needed, then symbolically executes the property's
# harnesses against /repo's current working tree.
set -u
cd /verif || exit 2
export GOFLAGS=-mod=mod GOPROXY=off GOSUMDB=off GOTOOLCHAIN=local
if [ ! -x bin/vcheck ] || [ -n "$(find engine -name '*.go' -newer bin/vcheck 2>/dev/null | head -1)" ]; then
  (cd engine && go build -o /verif/bin/vcheck ./cmd/vcheck) || { echo "INCONCLUSIVE property=$1 reason=engine build failed"; exit 2; }
fi
# a check only reads /repo: its module files must come out as they went in (with -mod=mod a
# harness importing a module that /repo requires only indirectly would make go rewrite go.mod)
before=$(cat /repo/go.mod /repo/go.sum 2>/dev/null | cksum)
./bin/vcheck run "$1" "${2:-quick}"
code=$?
after=$(cat /repo/go.mod /repo/go.sum 2>/dev/null | cksum)
if [ "$before" != "$after" ]; then
  echo "INCONCLUSIVE property=$1 reason=the run modified /repo/go.mod or go.sum (a harness import is not a direct requirement of the repository)"
  exit 2
fi
exit $code
