#!/bin/sh
# usage: ./check.sh <property> <quick|thorough>
# Rebuilds the driver if needed, then symbolically executes the property's
# harnesses against /repo's current working tree.
set -u
cd /verif || exit 2
export GOFLAGS=-mod=mod GOPROXY=off GOSUMDB=off GOTOOLCHAIN=local
if [ ! -x bin/vcheck ] || [ -n "$(find engine -name '*.go' -newer bin/vcheck 2>/dev/null | head -1)" ]; then
  (cd engine && go build -o /verif/bin/vcheck ./cmd/vcheck) || { echo "INCONCLUSIVE property=$1 reason=engine build failed"; exit 2; }
fi
exec ./bin/vcheck run "$1" "${2:-quick}"
