#!/bin/bash
# usage: seeded_run.sh <seed-dir-name> <property> [tier]
# Applies /verif/seeded/<name>/patch.diff to /repo, runs the property's check, undoes the patch.
name=$1; prop=$2; tier=${3:-quick}
cd /repo || exit 2
if [ -n "$(git status --porcelain)" ]; then echo "/repo not clean"; exit 2; fi
git apply /verif/seeded/$name/patch.diff || exit 2
cd /verif
./check.sh $prop $tier > /tmp/seedrun-$name-$prop-$tier.log 2>&1
code=$?
git -C /repo checkout -- .
echo "$name vs $prop $tier: exit=$code  $(grep -c '^VIOLATION' /tmp/seedrun-$name-$prop-$tier.log) violation lines"
grep -m3 "^VIOLATION\|^  harness\|^INCONCLUSIVE" /tmp/seedrun-$name-$prop-$tier.log | cut -c1-300
