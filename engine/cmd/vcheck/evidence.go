package main

import (
	"encoding/json"
	"fmt"
	"os"
	"path/filepath"
	"sort"

	"verif/engine/interp"
)

type HarnessEvidence struct {
	Name          string             `json:"harness"`
	Paths         int                `json:"paths"`
	Outcomes      map[string]int     `json:"path_outcomes"`
	Obligations   int                `json:"assertion_queries"`
	Discharged    int                `json:"assertion_queries_unsat"`
	ConcreteAsrt  int                `json:"assertions_decided_concretely"`
	Nontrivial    int                `json:"paths_with_assertion_query"`
	WithAssertion int                `json:"paths_with_assertion"`
	Reached       map[string]int     `json:"reach_tags"`
	Bounds        map[string]string  `json:"bounds"`
	Params        map[string]int     `json:"params,omitempty"`
	Solver        string             `json:"solver"`
	SolverQueries int64              `json:"solver_queries"`
	SolverSecs    float64            `json:"solver_time_s"`
	MaxDecisions  int                `json:"max_decision_depth"`
	UnwindFails   []string           `json:"unwind_failures"`
	Unsupported   []string           `json:"unsupported_paths"`
	CrossChecked  int                `json:"crosschecked_paths"`
	Secs          float64            `json:"wall_s"`
	Samples       []interp.PathSample `json:"samples"`
}

type Evidence struct {
	PropertyID string                 `json:"property_id"`
	Tier       string                 `json:"tier"`
	Seed       int                    `json:"seed"`
	Level      string                 `json:"level"`
	Coverage   map[string]interface{} `json:"coverage"`
	Assump     []string               `json:"assumptions"`
	Wall       float64                `json:"wall_s"`
	Violations int                    `json:"violations"`

	harnesses        []*HarnessEvidence
	funcs            map[string]bool
	stubs            map[string]int
	ps               *PropSpec
	LoadSecs         float64  `json:"-"`
	CrossChecked     int      `json:"-"`
	ReplaysConfirmed int      `json:"-"`
	Informational    []string `json:"-"`
}

func newEvidence(id, tier string, seed int, ps *PropSpec) *Evidence {
	lvl := ps.Level
	if lvl == "" {
		lvl = "other"
	}
	return &Evidence{PropertyID: id, Tier: tier, Seed: seed, Level: lvl, Coverage: map[string]interface{}{}, funcs: map[string]bool{}, stubs: map[string]int{}, ps: ps}
}

func (ev *Evidence) addHarness(hs HarnessSpec, rep *interp.HarnessReport, eng *interp.Engine) *HarnessEvidence {
	h := &HarnessEvidence{Name: hs.Name, Paths: rep.Paths, Outcomes: rep.Outcomes, Obligations: rep.Obligations, Discharged: rep.Discharged,
		ConcreteAsrt: rep.ConcreteAsrt, Nontrivial: rep.Nontrivial, WithAssertion: rep.WithAssertion, Reached: rep.Reached, Bounds: rep.Bounds, Params: hs.Params,
		Solver: eng.Cfg.Solver, SolverQueries: eng.Stats.Queries, SolverSecs: float64(eng.Stats.NanosSum) / 1e9,
		MaxDecisions: rep.MaxDecisions, UnwindFails: rep.BudgetFails, Unsupported: rep.Inconclusive, Secs: rep.Secs, Samples: rep.Samples}
	if h.UnwindFails == nil {
		h.UnwindFails = []string{}
	}
	if h.Unsupported == nil {
		h.Unsupported = []string{}
	}
	for f := range rep.Funcs {
		ev.funcs[f] = true
	}
	for s, n := range rep.Stubs {
		ev.stubs[s] += n
	}
	ev.harnesses = append(ev.harnesses, h)
	return h
}

func (ev *Evidence) finish(wall float64, violations int, known, inconclusive []string) {
	ev.Wall = wall
	ev.Violations = violations
	paths, nontriv, obl, dis, conc, solverPaths := 0, 0, 0, 0, 0, 0
	var queries int64
	var ssecs float64
	var samples []interface{}
	for _, h := range ev.harnesses {
		paths += h.Paths
		nontriv += h.WithAssertion
		solverPaths += h.Nontrivial
		obl += h.Obligations
		dis += h.Discharged
		conc += h.ConcreteAsrt
		queries += h.SolverQueries
		ssecs += h.SolverSecs
		for i, s := range h.Samples {
			if i < 3 {
				samples = append(samples, map[string]interface{}{"harness": h.Name, "path": s})
			}
		}
	}
	if samples == nil {
		samples = []interface{}{"no path completed"}
	}
	var repoFuncs, libFuncs []string
	for f := range ev.funcs {
		if contains(f, ".Verif") || contains(f, "zz_verifsym") || isHarnessHelper(f) {
			continue
		}
		if len(f) > 0 && contains(f, "streamingfast/substreams") {
			repoFuncs = append(repoFuncs, f)
		} else {
			libFuncs = append(libFuncs, f)
		}
	}
	sort.Strings(repoFuncs)
	sort.Strings(libFuncs)
	var stubs []string
	for s := range ev.stubs {
		stubs = append(stubs, s)
	}
	sort.Strings(stubs)
	c := ev.Coverage
	c["explanation"] = ev.ps.Explanation + " Decided by symbolic execution of the real functions (go/ssa of /repo's working tree, rebuilt on this run) with an SMT solver deciding every branch feasibility and every assertion over all input values within the stated bounds; clean paths are cross-checked and counterexamples replayed against the native build."
	c["evaluations"] = paths
	c["distinct_nontrivial"] = nontriv
	c["rule"] = "one evaluation = one feasible execution path (distinct decision vector, so paths are distinct by construction) of a harness, each standing for all inputs that follow it; non-trivial = the path evaluated at least one assertion of the property (decided by an SMT query, or concretely by the executor when the asserted term folded to a constant on that path); paths_with_solver_decided_assertion counts the former only"
	c["paths_with_solver_decided_assertion"] = solverPaths
	c["samples"] = samples
	c["obligations"] = obl
	c["discharged"] = dis
	c["assertions_decided_concretely"] = conc
	c["solver_queries"] = queries
	c["solver_time_s"] = ssecs
	c["functions_encoded"] = repoFuncs
	c["library_functions_interpreted"] = len(libFuncs)
	c["stubs_hit"] = stubs
	c["harnesses"] = ev.harnesses
	c["crosschecked_paths"] = ev.CrossChecked
	c["counterexamples_replayed_natively"] = ev.ReplaysConfirmed
	c["load_s"] = ev.LoadSecs
	c["trusted_base"] = ev.ps.Trusted
	c["known_findings_reported"] = known
	c["inconclusive"] = inconclusive
	c["informational"] = ev.Informational
	c["exhaustive"] = false
	ev.Assump = ev.ps.Assumptions
	if ev.Assump == nil {
		ev.Assump = []string{}
	}
}

func contains(s, sub string) bool {
	for i := 0; i+len(sub) <= len(s); i++ {
		if s[i:i+len(sub)] == sub {
			return true
		}
	}
	return false
}

func (ev *Evidence) write() {
	b, err := json.MarshalIndent(ev, "", " ")
	if err != nil {
		fmt.Fprintln(os.Stderr, "evidence:", err)
		return
	}
	if os.Getenv("VERIF_REPO") != "" {
		// a run redirected to a scratch worktree (seeded change) is not evidence about /repo
		os.MkdirAll(filepath.Join(verifDir, "logs"), 0o755)
		os.WriteFile(filepath.Join(verifDir, "logs", "evidence-scratch-"+ev.PropertyID+".json"), b, 0o644)
		return
	}
	os.WriteFile(filepath.Join(verifDir, "evidence", ev.PropertyID+".json"), b, 0o644)
}

func writeEvidenceFailure(id, tier string, seed int, ps *PropSpec, wall float64, why string) {
	ev := newEvidence(id, tier, seed, ps)
	ev.finish(wall, 0, nil, []string{why})
	ev.write()
}

func selftest() int {
	// term-level self test: evaluator vs solver on a few fixed identities
	var stats interp.SolverStats
	for _, kind := range []string{"z3", "cvc5-int"} {
		s, err := interp.NewSolver(kind, 20000, &stats)
		if err != nil {
			fmt.Println("selftest: cannot start", kind, err)
			return 2
		}
		x := interp.Var("x", 64)
		y := interp.Var("y", 64)
		// x + y == y + x  (negation unsat)
		r, _, err := s.Check([]*interp.Term{interp.Not(interp.Eq(interp.Bin("bvadd", x, y), interp.Bin("bvadd", y, x)))}, false)
		if err != nil || r != interp.Unsat {
			fmt.Println("selftest: commutativity not unsat with", kind, r, err)
			return 2
		}
		r, m, err := s.Check([]*interp.Term{interp.Eq(interp.Bin("bvadd", x, interp.BV(64, 5)), interp.BV(64, 3))}, true)
		if err != nil || r != interp.Sat || m["x"] != ^uint64(1) {
			fmt.Println("selftest: model wrong with", kind, r, m, err)
			return 2
		}
		s.Close()
	}
	fmt.Println("selftest ok")
	return 0
}

// isHarnessHelper recognises helper functions defined in harness files by
// their naming convention (v*, c<NN>*: see /verif/harness).
func isHarnessHelper(f string) bool {
	i := len(f) - 1
	for i >= 0 && f[i] != '.' && f[i] != ')' {
		i--
	}
	name := f[i+1:]
	if j := indexByte(name, '$'); j >= 0 {
		name = name[:j]
	}
	if len(name) >= 2 && name[0] == 'v' && name[1] >= 'A' && name[1] <= 'Z' {
		return true
	}
	if len(name) >= 4 && name[0] == 'c' && name[1] >= '0' && name[1] <= '9' && name[2] >= '0' && name[2] <= '9' {
		return true
	}
	return false
}

func indexByte(s string, c byte) int {
	for i := 0; i < len(s); i++ {
		if s[i] == c {
			return i
		}
	}
	return -1
}
