// vcheck: driver of the /verif solver-based checks.
//
//	vcheck run <property> <quick|thorough>
//	vcheck harness <name> [-roots a,b] [-solver z3] [-param K=4] ...   (development)
//	vcheck replay <replay.json>
//	vcheck selftest
package main

import (
	"encoding/json"
	"flag"
	"fmt"
	"os"
	"os/exec"
	"path/filepath"
	"sort"
	"strconv"
	"strings"
	"time"

	"verif/engine/interp"
)

// verifDir is /verif; VERIF_DIR points the driver at a scratch copy while developing
// (the registered commands never set it).
var verifDir = func() string {
	if d := os.Getenv("VERIF_DIR"); d != "" {
		return d
	}
	return "/verif"
}()

// repoDir is /repo; VERIF_REPO redirects the checks to a scratch worktree (used
// only to try seeded changes without touching /repo).
var repoDir = func() string {
	if d := os.Getenv("VERIF_REPO"); d != "" {
		return d
	}
	return "/repo"
}()

type HarnessSpec struct {
	Name       string         `json:"name"`
	Params     map[string]int `json:"params,omitempty"`
	Solver     string         `json:"solver,omitempty"`
	MaxDigits  int            `json:"max_digits,omitempty"`
	MaxSteps   int            `json:"max_steps,omitempty"`
	MaxDec     int            `json:"max_decisions,omitempty"`
	TimeoutMs  int            `json:"timeout_ms,omitempty"`
	Reach      []string       `json:"reach,omitempty"`     // tags that must be reached
	Info       bool           `json:"info,omitempty"`      // informational: never a VIOLATION
	BudgetIs   string         `json:"budget_is,omitempty"` // "violation": exceeding the step budget is the violation (C17 hang)
	CrossCheck int            `json:"crosscheck,omitempty"`
	InjectiveHash bool        `json:"injective_hash,omitempty"`
}

type PropSpec struct {
	Roots       []string                 `json:"roots"`
	Solver      string                   `json:"solver"`
	Fallback    []string                 `json:"fallback,omitempty"`
	Level       string                   `json:"level"`
	Explanation string                   `json:"explanation"`
	Assumptions []string                 `json:"assumptions"`
	Trusted     []string                 `json:"trusted_base"`
	Tiers       map[string][]HarnessSpec `json:"tiers"`
}

type KnownFinding struct {
	Property      string            `json:"property"`
	Harness       string            `json:"harness"`
	Label         string            `json:"label"`
	Discriminator map[string]string `json:"discriminator,omitempty"`
	What          string            `json:"what"`
	Status        string            `json:"status"` // "known" | "fixed"
	Commit        string            `json:"commit,omitempty"`
}

func loadProps() map[string]*PropSpec {
	b, err := os.ReadFile(filepath.Join(verifDir, "props.json"))
	if err != nil {
		fatal(2, "cannot read props.json: %v", err)
	}
	var m map[string]*PropSpec
	if err := json.Unmarshal(b, &m); err != nil {
		fatal(2, "props.json: %v", err)
	}
	return m
}

func loadKnown() []KnownFinding {
	b, err := os.ReadFile(filepath.Join(verifDir, "known_findings.json"))
	if err != nil {
		return nil
	}
	var k []KnownFinding
	if err := json.Unmarshal(b, &k); err != nil {
		fatal(2, "known_findings.json: %v", err)
	}
	return k
}

func fatal(code int, f string, a ...interface{}) {
	fmt.Fprintf(os.Stderr, f+"\n", a...)
	os.Exit(code)
}

func main() {
	if len(os.Args) < 2 {
		fatal(2, "usage: vcheck run|harness|replay|selftest ...")
	}
	os.Setenv("GOFLAGS", "-mod=mod")
	os.Setenv("GOPROXY", "off")
	os.Setenv("GOSUMDB", "off")
	os.Setenv("GOTOOLCHAIN", "local")
	switch os.Args[1] {
	case "run":
		if len(os.Args) < 4 {
			fatal(2, "usage: vcheck run <property> <quick|thorough>")
		}
		os.Exit(runProperty(os.Args[2], os.Args[3]))
	case "harness":
		os.Exit(devHarness(os.Args[2:]))
	case "replay":
		if len(os.Args) < 3 {
			fatal(2, "usage: vcheck replay <file>")
		}
		os.Exit(replayFile(os.Args[2]))
	case "selftest":
		os.Exit(selftest())
	default:
		fatal(2, "unknown command %s", os.Args[1])
	}
}

// ---------------- native replay ----------------

type ReplayJSON struct {
	Harness   string            `json:"harness"`
	Package   string            `json:"package"`
	Property  string            `json:"property,omitempty"`
	Label     string            `json:"label,omitempty"`
	Kind      string            `json:"kind,omitempty"`
	Values    map[string]string `json:"values"`
	Params    map[string]int    `json:"params,omitempty"`
	Decisions string            `json:"decisions,omitempty"`
	Note      string            `json:"note,omitempty"`
}

type Replayer struct {
	work string
	bins map[string]string // package rel dir -> test binary
}

func newReplayer(work string) *Replayer { return &Replayer{work: work, bins: map[string]string{}} }

// harnessFuncs lists Verif* functions defined in the overlay files of pkgRel.
func harnessFuncs(pkgRel string) []string {
	dir := filepath.Join(verifDir, "harness", pkgRel)
	ents, _ := os.ReadDir(dir)
	var out []string
	for _, e := range ents {
		if !strings.HasSuffix(e.Name(), ".go") || strings.HasSuffix(e.Name(), "_test.go") {
			continue
		}
		b, _ := os.ReadFile(filepath.Join(dir, e.Name()))
		for _, line := range strings.Split(string(b), "\n") {
			if strings.HasPrefix(line, "func Verif") {
				name := strings.TrimPrefix(line, "func ")
				if i := strings.Index(name, "("); i > 0 && strings.HasPrefix(name[i:], "()") {
					out = append(out, name[:i])
				}
			}
		}
	}
	sort.Strings(out)
	return out
}

func pkgNameOf(pkgRel string) string {
	dir := filepath.Join(verifDir, "harness", pkgRel)
	ents, _ := os.ReadDir(dir)
	for _, e := range ents {
		if strings.HasSuffix(e.Name(), ".go") {
			b, _ := os.ReadFile(filepath.Join(dir, e.Name()))
			for _, line := range strings.Split(string(b), "\n") {
				if strings.HasPrefix(line, "package ") {
					return strings.TrimSpace(strings.TrimPrefix(line, "package "))
				}
			}
		}
	}
	return filepath.Base(pkgRel)
}

func (r *Replayer) build(pkgRel string) (string, error) {
	if b, ok := r.bins[pkgRel]; ok {
		return b, nil
	}
	fns := harnessFuncs(pkgRel)
	var sb strings.Builder
	fmt.Fprintf(&sb, "package %s\n\nimport (\n\t\"testing\"\n\tsym \"%s/zz_verifsym\"\n)\n\n", pkgNameOf(pkgRel), interp.RepoModule)
	sb.WriteString("func TestVerifReplay(t *testing.T) {\n\tfns := map[string]func(){\n")
	for _, f := range fns {
		fmt.Fprintf(&sb, "\t\t%q: %s,\n", f, f)
	}
	sb.WriteString("\t}\n\tname := sym.HarnessName()\n\tf, ok := fns[name]\n\tif !ok {\n\t\tt.Fatalf(\"unknown harness %s\", name)\n\t}\n\tsym.Run(name, f)\n}\n")
	tag := strings.ReplaceAll(pkgRel, "/", "_")
	testFile := filepath.Join(r.work, tag+"_replay_test.go")
	if err := os.WriteFile(testFile, []byte(sb.String()), 0o644); err != nil {
		return "", err
	}
	repl := map[string]string{}
	hdir := filepath.Join(verifDir, "harness")
	filepath.Walk(hdir, func(p string, info os.FileInfo, err error) error {
		if err == nil && !info.IsDir() && strings.HasSuffix(p, ".go") {
			rel, _ := filepath.Rel(hdir, p)
			repl[filepath.Join(repoDir, rel)] = p
		}
		return nil
	})
	repl[filepath.Join(repoDir, pkgRel, "zz_verif_replay_test.go")] = testFile
	// native counterpart of the engine's dstore.NewStore redirect: the constructor first looks
	// for a store the harness published for that URL (expvar registry), so that code which opens
	// its object store by URL gets the harness's in-memory store in the replay too
	if orig, patched, ok := patchedDstore(r.work); ok {
		repl[orig] = patched
	}
	ovb, _ := json.Marshal(map[string]interface{}{"Replace": repl})
	ovFile := filepath.Join(r.work, tag+"_overlay.json")
	os.WriteFile(ovFile, ovb, 0o644)
	bin := filepath.Join(r.work, tag+".test")
	cmd := exec.Command("go", "test", "-c", "-vet=off", "-overlay", ovFile, "-o", bin, "./"+pkgRel)
	cmd.Dir = repoDir
	out, err := cmd.CombinedOutput()
	if err != nil {
		return "", fmt.Errorf("building replay binary for %s: %v\n%s", pkgRel, err, out)
	}
	r.bins[pkgRel] = bin
	return bin, nil
}

// patchedDstore writes a copy of dstore's stores.go whose NewStore consults the expvar registry.
func patchedDstore(work string) (orig, patched string, ok bool) {
	cmd := exec.Command("go", "list", "-m", "-f", "{{.Dir}}", "github.com/streamingfast/dstore")
	cmd.Dir = repoDir
	out, err := cmd.Output()
	if err != nil {
		return "", "", false
	}
	orig = filepath.Join(strings.TrimSpace(string(out)), "stores.go")
	b, err := os.ReadFile(orig)
	if err != nil {
		return "", "", false
	}
	src := string(b)
	sig := "func NewStore(baseURL, extension, compressionType string, overwrite bool, opts ...Option) (Store, error) {\n"
	if !strings.Contains(src, sig) || !strings.Contains(src, "import (\n") {
		return "", "", false
	}
	// only packages dstore already imports may be used (the module index fixes the import set of
	// a module-cache package regardless of overlays): the rendezvous is net/http's default mux
	if !strings.Contains(src, "\"strings\"") {
		return "", "", false
	}
	hook := "\tif req, herr := http.NewRequest(\"GET\", \"http://verif-store.invalid/\"+strings.ReplaceAll(strings.ReplaceAll(baseURL, \":\", \"-\"), \"/\", \"-\"), nil); herr == nil {\n" +
		"\t\tif h, pattern := http.DefaultServeMux.Handler(req); pattern != \"\" {\n\t\t\tif s, isStore := h.(Store); isStore {\n\t\t\t\treturn s, nil\n\t\t\t}\n\t\t}\n\t}\n"
	src = strings.Replace(src, sig, sig+hook, 1)
	if !strings.Contains(src, "\"net/http\"") {
		src = strings.Replace(src, "import (\n", "import (\n\t\"net/http\"\n", 1)
	}
	patched = filepath.Join(work, "dstore_stores_patched.go")
	if os.WriteFile(patched, []byte(src), 0o644) != nil {
		return "", "", false
	}
	return orig, patched, true
}

type NativeResult struct {
	Outcome string
	Failed  []string
	Obs     []string // "name=value"
	Panic   string
	Raw     string
}

func (r *Replayer) run(pkgRel, file string, timeout time.Duration) (*NativeResult, error) {
	bin, err := r.build(pkgRel)
	if err != nil {
		return nil, err
	}
	cmd := exec.Command("timeout", fmt.Sprint(int(timeout.Seconds())), bin, "-test.run", "^TestVerifReplay$", "-test.v", "-test.count=1")
	cmd.Dir = filepath.Join(repoDir, pkgRel)
	cmd.Env = append(os.Environ(), "VERIF_REPLAY="+file)
	out, runErr := cmd.CombinedOutput()
	res := &NativeResult{Raw: string(out)}
	for _, line := range strings.Split(string(out), "\n") {
		switch {
		case strings.HasPrefix(line, "ASSERT-FAIL "):
			res.Failed = append(res.Failed, strings.TrimPrefix(line, "ASSERT-FAIL "))
		case strings.HasPrefix(line, "OBS "):
			res.Obs = append(res.Obs, strings.TrimPrefix(line, "OBS "))
		case strings.HasPrefix(line, "PANIC "):
			res.Panic = strings.TrimPrefix(line, "PANIC ")
		case strings.HasPrefix(line, "OUTCOME "):
			f := strings.Fields(line)
			res.Outcome = f[len(f)-1]
		}
	}
	if res.Outcome == "" {
		if ee, ok := runErr.(*exec.ExitError); ok && ee.ExitCode() == 124 {
			res.Outcome = "timeout"
		} else if strings.Contains(string(out), "panic:") || strings.Contains(string(out), "fatal error:") {
			res.Outcome = "panic"
			res.Panic = firstLineWith(string(out), "panic:", "fatal error:")
		} else {
			res.Outcome = "unknown"
		}
	}
	return res, nil
}

func firstLineWith(s string, subs ...string) string {
	for _, l := range strings.Split(s, "\n") {
		for _, sub := range subs {
			if strings.Contains(l, sub) {
				return l
			}
		}
	}
	return ""
}

func pkgRelOf(eng *interp.Engine, harness string) string {
	p := eng.HarnessPkgPath(harness)
	return strings.TrimPrefix(strings.TrimPrefix(p, interp.RepoModule), "/")
}

// ---------------- property run ----------------

type runOutcome struct {
	violations   []string // replay paths
	known        []string
	inconclusive []string
}

func decisionsString(d []int) string {
	var sb strings.Builder
	for i, x := range d {
		if i > 0 {
			sb.WriteByte(',')
		}
		sb.WriteString(strconv.Itoa(x))
	}
	return sb.String()
}

func matchKnown(known []KnownFinding, prop, harness, label string, vals map[string]string) *KnownFinding {
	for i := range known {
		k := &known[i]
		if k.Property != prop || k.Status == "fixed" {
			continue
		}
		if k.Harness != "" && k.Harness != harness {
			continue
		}
		if k.Label != label {
			continue
		}
		ok := true
		for dk, dv := range k.Discriminator {
			if vals[dk] != dv {
				ok = false
			}
		}
		if ok {
			return k
		}
	}
	return nil
}

func runProperty(id, tier string) int {
	t0 := time.Now()
	props := loadProps()
	ps, ok := props[id]
	if !ok {
		fatal(2, "property %s not in props.json", id)
	}
	specs := ps.Tiers[tier]
	if len(specs) == 0 {
		fatal(2, "property %s has no %s tier", id, tier)
	}
	seed, _ := strconv.Atoi(os.Getenv("VERIF_SEED"))
	known := loadKnown()
	work := filepath.Join(verifDir, ".work", fmt.Sprintf("%s-%s-%d", id, tier, os.Getpid()))
	os.MkdirAll(work, 0o755)
	defer os.RemoveAll(work)
	os.MkdirAll(filepath.Join(verifDir, "replays", id), 0o755)
	os.MkdirAll(filepath.Join(verifDir, "evidence"), 0o755)

	overlay, err := interp.BuildOverlay(filepath.Join(verifDir, "harness"), repoDir)
	if err != nil {
		fatal(2, "overlay: %v", err)
	}
	ld, err := interp.Load(repoDir, ps.Roots, overlay, "")
	if err != nil {
		fmt.Printf("INCONCLUSIVE property=%s reason=harness does not load against the current tree: %v\n", id, err)
		writeEvidenceFailure(id, tier, seed, ps, time.Since(t0).Seconds(), "load failure: "+err.Error())
		return 2
	}
	rp := newReplayer(work)
	var out runOutcome
	ev := newEvidence(id, tier, seed, ps)
	ev.LoadSecs = ld.LoadSecs
	for si, hs := range specs {
		cfg := interp.DefaultConfig()
		cfg.Solver = ps.Solver
		if hs.Solver != "" {
			cfg.Solver = hs.Solver
		}
		if cfg.Solver == "" {
			cfg.Solver = "z3"
		}
		cfg.Fallback = ps.Fallback
		if tier == "thorough" {
			cfg.TimeoutMs = 120000
		}
		if hs.TimeoutMs > 0 {
			cfg.TimeoutMs = hs.TimeoutMs
		}
		if hs.MaxSteps > 0 {
			cfg.MaxSteps = hs.MaxSteps
		}
		if hs.MaxDec > 0 {
			cfg.MaxDecisions = hs.MaxDec
		}
		cfg.Verbose = os.Getenv("VERIF_VERBOSE") != ""
		cfg.InjectiveHash = hs.InjectiveHash
		cfg.BudgetIsViolation = hs.BudgetIs == "violation"
		if cfg.BudgetIsViolation && hs.MaxSteps == 0 {
			cfg.MaxSteps = 2_000_000 // a bounded-size request needs far fewer steps
		}
		eng := interp.NewEngine(ld, cfg)
		eng.Params = hs.Params
		eng.MaxDigits = hs.MaxDigits
		keep := hs.CrossCheck
		if keep == 0 {
			keep = 50
			if tier == "thorough" {
				keep = 100 // per harness configuration (400 made the native replays dominate thorough runs)
			}
		}
		rep, err := eng.RunHarness(hs.Name, keep)
		if err != nil {
			fmt.Printf("INCONCLUSIVE property=%s reason=%v\n", id, err)
			out.inconclusive = append(out.inconclusive, err.Error())
			continue
		}
		pkgRel := pkgRelOf(eng, hs.Name)
		fmt.Printf("[%s %s] %s %v: %d paths (%v), %d assertion queries, %d discharged, %d concrete asserts, %d solver queries, %.1fs\n",
			id, tier, hs.Name, hs.Params, rep.Paths, rep.Outcomes, rep.Obligations, rep.Discharged, rep.ConcreteAsrt, eng.Stats.Queries, rep.Secs)
		hev := ev.addHarness(hs, rep, eng)

		// inconclusive paths
		for _, m := range rep.Inconclusive {
			out.inconclusive = append(out.inconclusive, hs.Name+": "+m)
		}
		for _, m := range rep.BudgetFails {
			if hs.BudgetIs == "violation" {
				continue
			}
			out.inconclusive = append(out.inconclusive, hs.Name+": unwinding/budget failure: "+m)
		}
		// vacuity
		for _, tag := range hs.Reach {
			if rep.Reached[tag] == 0 {
				out.inconclusive = append(out.inconclusive, fmt.Sprintf("%s: vacuous: tag %q never reached", hs.Name, tag))
			}
		}
		if rep.Obligations+rep.ConcreteAsrt == 0 {
			out.inconclusive = append(out.inconclusive, hs.Name+": vacuous: no assertion evaluated")
		}

		// cross-check a sample of clean paths natively
		nCross, mism := crossCheck(rp, pkgRel, hs, rep, work, seed)
		hev.CrossChecked = nCross
		ev.CrossChecked += nCross
		for _, m := range mism {
			out.inconclusive = append(out.inconclusive, hs.Name+": native cross-check mismatch: "+m)
		}

		// violations: replay natively before reporting
		seenKnown := map[string]bool{}
		nrep := 0
		for vi, v := range rep.Violations {
			vals := interp.InputValues(v.Inputs, v.Model)
			rj := ReplayJSON{Harness: hs.Name, Package: pkgRel, Property: id, Label: v.Label, Kind: v.Kind, Values: vals, Params: hs.Params, Decisions: decisionsString(v.Decisions), Note: v.Msg}
			kf := matchKnown(known, id, hs.Name, v.Label, vals)
			if kf != nil && seenKnown[kf.What] {
				continue
			}
			if kf == nil && nrep >= 6 {
				continue
			}
			path := filepath.Join(verifDir, "replays", id, fmt.Sprintf("%s-%s-%d-%d.json", hs.Name, tier, si, vi))
			b, _ := json.MarshalIndent(rj, "", " ")
			os.WriteFile(path, b, 0o644)
			replayCap := 120 * time.Second
			if v.Kind == "hang" {
				replayCap = 20 * time.Second
			}
			nr, err := rp.run(pkgRel, path, replayCap)
			if err != nil {
				out.inconclusive = append(out.inconclusive, fmt.Sprintf("%s: cannot replay: %v", hs.Name, err))
				continue
			}
			reproduced := false
			switch v.Kind {
			case "assert":
				for _, l := range nr.Failed {
					if l == v.Label {
						reproduced = true
					}
				}
				if !reproduced && len(nr.Failed) > 0 {
					// the native run violates the property on this input too, through
					// another assertion of the same harness (e.g. where the engine copies
					// what the real code aliases): still a confirmed violation
					reproduced = true
					v.Msg += fmt.Sprintf(" (natively the failing assertion is %v)", nr.Failed)
				}
			case "panic":
				reproduced = nr.Outcome == "panic"
			case "hang":
				reproduced = nr.Outcome == "timeout"
			}
			if !reproduced {
				out.inconclusive = append(out.inconclusive, fmt.Sprintf("%s: counterexample for %q does not reproduce natively (native outcome %s, failed %v) — engine or stub error; replay %s", hs.Name, v.Label, nr.Outcome, nr.Failed, path))
				continue
			}
			ev.ReplaysConfirmed++
			switch {
			case hs.Info:
				ev.Informational = append(ev.Informational, fmt.Sprintf("%s %s: %s (replay %s)", hs.Name, v.Label, v.Msg, path))
			case kf != nil:
				seenKnown[kf.What] = true
				out.known = append(out.known, kf.What)
				fmt.Printf("KNOWN-FINDING: property=%s %s\n", id, kf.What)
				os.Remove(path)
			default:
				nrep++
				out.violations = append(out.violations, path)
				fmt.Printf("VIOLATION property=%s replay=%s\n", id, path)
				fmt.Printf("  harness=%s label=%s kind=%s msg=%s inputs=%v\n", hs.Name, v.Label, v.Kind, v.Msg, vals)
			}
		}
		// C17-style: budget exhaustion is the violation; it was turned into a "hang"
		// violation above and confirmed natively under a timeout. A budget failure
		// without such a violation (no model) stays inconclusive.
		if hs.BudgetIs == "violation" && len(rep.BudgetFails) > 0 {
			hasHang := false
			for _, v := range rep.Violations {
				if v.Kind == "hang" {
					hasHang = true
				}
			}
			if !hasHang {
				out.inconclusive = append(out.inconclusive, hs.Name+": step budget exceeded without a model: "+rep.BudgetFails[0])
			}
		}
	}
	ev.finish(time.Since(t0).Seconds(), len(out.violations), out.known, out.inconclusive)
	ev.write()
	if len(out.violations) > 0 {
		return 1
	}
	if len(out.inconclusive) > 0 {
		for i, m := range out.inconclusive {
			if i >= 10 {
				fmt.Printf("  … %d more\n", len(out.inconclusive)-i)
				break
			}
			fmt.Printf("INCONCLUSIVE property=%s reason=%s\n", id, oneLine(m))
		}
		return 2
	}
	fmt.Printf("OK property=%s tier=%s wall=%.1fs\n", id, tier, time.Since(t0).Seconds())
	return 0
}

func oneLine(s string) string {
	s = strings.ReplaceAll(s, "\n", " | ")
	if len(s) > 600 {
		s = s[:600] + "…"
	}
	return s
}

// crossCheck replays clean paths natively and compares observations.
func crossCheck(rp *Replayer, pkgRel string, hs HarnessSpec, rep *interp.HarnessReport, work string, seed int) (int, []string) {
	var mism []string
	n := 0
	paths := rep.OkPaths
	// seed only rotates which retained paths are validated first
	if len(paths) > 0 && seed != 0 {
		k := seed % len(paths)
		if k < 0 {
			k = -k
		}
		paths = append(paths[k:], paths[:k]...)
	}
	for i, p := range paths {
		if p.Model == nil {
			continue
		}
		vals := interp.InputValues(p.Inputs, p.Model)
		rj := ReplayJSON{Harness: hs.Name, Package: pkgRel, Values: vals, Params: hs.Params}
		path := filepath.Join(work, fmt.Sprintf("cross-%s-%d.json", hs.Name, i))
		b, _ := json.Marshal(rj)
		os.WriteFile(path, b, 0o644)
		nr, err := rp.run(pkgRel, path, 60*time.Second)
		if err != nil {
			mism = append(mism, err.Error())
			return n, mism
		}
		n++
		if nr.Outcome != "ok" {
			mism = append(mism, fmt.Sprintf("path %s: engine ok, native %s %v %s (inputs %v)", decisionsString(p.Decisions), nr.Outcome, nr.Failed, nr.Panic, vals))
			continue
		}
		var want []string
		for _, o := range p.Obs {
			want = append(want, o.Name+"="+interp.ObsString(o.Val, p.Model))
		}
		if len(want) != len(nr.Obs) {
			mism = append(mism, fmt.Sprintf("path %s: %d observations vs native %d (inputs %v)", decisionsString(p.Decisions), len(want), len(nr.Obs), vals))
			continue
		}
		for j := range want {
			if strings.HasSuffix(want[j], "=?") {
				continue
			}
			if want[j] != nr.Obs[j] {
				mism = append(mism, fmt.Sprintf("path %s: observation %s vs native %s (inputs %v)", decisionsString(p.Decisions), want[j], nr.Obs[j], vals))
				break
			}
		}
		os.Remove(path)
		if len(mism) > 3 {
			break
		}
	}
	return n, mism
}

// ---------------- dev: single harness ----------------

func devHarness(args []string) int {
	fs := flag.NewFlagSet("harness", flag.ExitOnError)
	roots := fs.String("roots", "", "comma separated root packages")
	solver := fs.String("solver", "z3", "solver")
	params := fs.String("params", "", "K=4,N=3")
	trace := fs.Bool("trace", false, "trace instructions")
	workers := fs.Int("workers", 16, "workers")
	fallback := fs.String("fallback", "", "fallback solvers, comma separated")
	digits := fs.Int("digits", 0, "max digits")
	cross := fs.Int("cross", 0, "cross-check N clean paths")
	maxpaths := fs.Int("maxpaths", 0, "max paths")
	injective := fs.Bool("injective", false, "injective sha1 model")
	fs.Parse(args[1:])
	name := args[0]
	overlay, err := interp.BuildOverlay(filepath.Join(verifDir, "harness"), repoDir)
	if err != nil {
		fatal(2, "%v", err)
	}
	ld, err := interp.Load(repoDir, strings.Split(*roots, ","), overlay, "")
	if err != nil {
		fatal(2, "%v", err)
	}
	fmt.Printf("loaded in %.1fs\n", ld.LoadSecs)
	cfg := interp.DefaultConfig()
	cfg.Solver = *solver
	cfg.Trace = *trace
	cfg.Workers = *workers
	cfg.Verbose = true
	cfg.InjectiveHash = *injective
	if *fallback != "" {
		cfg.Fallback = strings.Split(*fallback, ",")
	}
	if *maxpaths > 0 {
		cfg.MaxPaths = *maxpaths
	}
	eng := interp.NewEngine(ld, cfg)
	eng.MaxDigits = *digits
	eng.Params = map[string]int{}
	if *params != "" {
		for _, kv := range strings.Split(*params, ",") {
			p := strings.SplitN(kv, "=", 2)
			v, _ := strconv.Atoi(p[1])
			eng.Params[p[0]] = v
		}
	}
	rep, err := eng.RunHarness(name, *cross)
	if err != nil {
		fatal(2, "%v", err)
	}
	fmt.Printf("%s: %d paths %v; obligations %d discharged %d concrete %d; queries %d (sat %d unsat %d unknown %d, %.1fs solver); %.1fs; max decisions %d\n",
		name, rep.Paths, rep.Outcomes, rep.Obligations, rep.Discharged, rep.ConcreteAsrt, eng.Stats.Queries, eng.Stats.Sat, eng.Stats.Unsat, eng.Stats.Unknown, float64(eng.Stats.NanosSum)/1e9, rep.Secs, rep.MaxDecisions)
	fmt.Printf("reached: %v\n", rep.Reached)
	for _, m := range rep.Inconclusive {
		fmt.Printf("UNSUPPORTED: %s\n", m)
	}
	for _, m := range rep.BudgetFails {
		fmt.Printf("BUDGET: %s\n", m)
	}
	for _, v := range rep.Violations {
		fmt.Printf("VIOLATION %s [%s] %s\n   inputs: %v\n   notes: %v\n", v.Label, v.Kind, v.Msg, interp.InputValues(v.Inputs, v.Model), v.Notes)
	}
	fmt.Printf("stubs: %v\n", rep.Stubs)
	if *cross > 0 {
		work := filepath.Join(verifDir, ".work", fmt.Sprintf("dev-%d", os.Getpid()))
		os.MkdirAll(work, 0o755)
		defer os.RemoveAll(work)
		rp := newReplayer(work)
		n, mism := crossCheck(rp, pkgRelOf(eng, name), HarnessSpec{Name: name, Params: eng.Params}, rep, work, 0)
		fmt.Printf("cross-checked %d paths, mismatches: %v\n", n, mism)
		for vi, v := range rep.Violations {
			vals := interp.InputValues(v.Inputs, v.Model)
			rj := ReplayJSON{Harness: name, Package: pkgRelOf(eng, name), Values: vals, Params: eng.Params}
			path := filepath.Join(work, fmt.Sprintf("viol-%d.json", vi))
			b, _ := json.Marshal(rj)
			os.WriteFile(path, b, 0o644)
			nr, err := rp.run(pkgRelOf(eng, name), path, 60*time.Second)
			if err != nil {
				fmt.Println("replay error:", err)
				continue
			}
			fmt.Printf("native replay of %s: outcome=%s failed=%v panic=%s\n", v.Label, nr.Outcome, nr.Failed, nr.Panic)
		}
	}
	return 0
}

func replayFile(path string) int {
	b, err := os.ReadFile(path)
	if err != nil {
		fatal(2, "%v", err)
	}
	var rj ReplayJSON
	if err := json.Unmarshal(b, &rj); err != nil {
		fatal(2, "%v", err)
	}
	work := filepath.Join(verifDir, ".work", fmt.Sprintf("replay-%d", os.Getpid()))
	os.MkdirAll(work, 0o755)
	defer os.RemoveAll(work)
	rp := newReplayer(work)
	abs, _ := filepath.Abs(path)
	nr, err := rp.run(rj.Package, abs, 300*time.Second)
	if err != nil {
		fatal(2, "%v", err)
	}
	fmt.Print(nr.Raw)
	fmt.Printf("replay: harness=%s outcome=%s failed=%v\n", rj.Harness, nr.Outcome, nr.Failed)
	if nr.Outcome == "ok" {
		return 0
	}
	return 1
}
