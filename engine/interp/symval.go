package interp

// Symbolic scalar values, strings with symbolic bytes, ordered maps with
// symbolic-key lookup, and the equality relation over all of them.

import (
	"bytes"
	"fmt"
	"go/types"
	"math"
	"unsafe"

	"golang.org/x/tools/go/ssa"
)

// sym is a scalar whose value is an SMT term; k is the Go basic kind.
type sym struct {
	t *Term
	k types.BasicKind
}

// sstring is a string with at least one symbolic byte. Elements are uint8 or sym{Uint8}.
type sstring struct{ b []value }

// opaque is an engine-native object standing for a library value.
type opaque struct {
	kind string
	p    interface{}
}

// poison marks a value the engine could not compute (lenient init only).
type poison struct{ why string }

func kindWidth(k types.BasicKind) Sort {
	switch k {
	case types.Bool, types.UntypedBool:
		return BoolSort
	case types.Int8, types.Uint8:
		return 8
	case types.Int16, types.Uint16:
		return 16
	case types.Int32, types.Uint32, types.UntypedRune:
		return 32
	case types.Int, types.Int64, types.Uint, types.Uint64, types.Uintptr, types.UntypedInt:
		return 64
	}
	panic(fmt.Sprintf("kindWidth: %v", k))
}

func kindSigned(k types.BasicKind) bool {
	switch k {
	case types.Int, types.Int8, types.Int16, types.Int32, types.Int64, types.UntypedInt, types.UntypedRune:
		return true
	}
	return false
}

func basicKind(t types.Type) types.BasicKind {
	b, ok := t.Underlying().(*types.Basic)
	if !ok {
		panic(fmt.Sprintf("basicKind: %s", t))
	}
	return b.Kind()
}

// valKind returns the basic kind of a concrete scalar or sym.
func valKind(v value) (types.BasicKind, bool) {
	switch v := v.(type) {
	case sym:
		return v.k, true
	case bool:
		return types.Bool, true
	case int:
		return types.Int, true
	case int8:
		return types.Int8, true
	case int16:
		return types.Int16, true
	case int32:
		return types.Int32, true
	case int64:
		return types.Int64, true
	case uint:
		return types.Uint, true
	case uint8:
		return types.Uint8, true
	case uint16:
		return types.Uint16, true
	case uint32:
		return types.Uint32, true
	case uint64:
		return types.Uint64, true
	case uintptr:
		return types.Uintptr, true
	}
	return 0, false
}

// termOf converts a scalar (concrete or symbolic) to a term.
func termOf(v value) *Term {
	switch v := v.(type) {
	case sym:
		return v.t
	case bool:
		return BoolT(v)
	case int:
		return BV(64, uint64(v))
	case int8:
		return BV(8, uint64(v))
	case int16:
		return BV(16, uint64(v))
	case int32:
		return BV(32, uint64(v))
	case int64:
		return BV(64, uint64(v))
	case uint:
		return BV(64, uint64(v))
	case uint8:
		return BV(8, uint64(v))
	case uint16:
		return BV(16, uint64(v))
	case uint32:
		return BV(32, uint64(v))
	case uint64:
		return BV(64, v)
	case uintptr:
		return BV(64, uint64(v))
	}
	panic(unsupported{fmt.Sprintf("termOf: %T", v)})
}

// concreteOf builds the native Go value of kind k from bits c.
func concreteOf(c uint64, k types.BasicKind) value {
	switch k {
	case types.Bool, types.UntypedBool:
		return c == 1
	case types.Int, types.UntypedInt:
		return int(c)
	case types.Int8:
		return int8(c)
	case types.Int16:
		return int16(c)
	case types.Int32, types.UntypedRune:
		return int32(c)
	case types.Int64:
		return int64(c)
	case types.Uint:
		return uint(c)
	case types.Uint8:
		return uint8(c)
	case types.Uint16:
		return uint16(c)
	case types.Uint32:
		return uint32(c)
	case types.Uint64:
		return c
	case types.Uintptr:
		return uintptr(c)
	}
	panic(fmt.Sprintf("concreteOf: kind %v", k))
}

// mkval normalises a term to a concrete native value when constant.
func mkval(t *Term, k types.BasicKind) value {
	if t.IsConst() {
		return concreteOf(t.C, k)
	}
	if t.S != kindWidth(k) {
		panic(fmt.Sprintf("mkval: sort %v for kind %v", t.S, k))
	}
	return sym{t, k}
}

func isSym(v value) bool { _, ok := v.(sym); return ok }

// mkstr normalises a byte list into a native string when fully concrete.
func mkstr(b []value) value {
	for _, x := range b {
		if _, ok := x.(uint8); !ok {
			cp := make([]value, len(b))
			copy(cp, b)
			return sstring{cp}
		}
	}
	bs := make([]byte, len(b))
	for i, x := range b {
		bs[i] = x.(uint8)
	}
	return string(bs)
}

// strBytes returns the byte values of a native or symbolic string.
func strBytes(v value) []value {
	switch v := v.(type) {
	case string:
		r := make([]value, len(v))
		for i := 0; i < len(v); i++ {
			r[i] = v[i]
		}
		return r
	case sstring:
		return v.b
	}
	panic(unsupported{fmt.Sprintf("strBytes: %T", v)})
}

func strLen(v value) int {
	switch v := v.(type) {
	case string:
		return len(v)
	case sstring:
		return len(v.b)
	}
	panic(unsupported{fmt.Sprintf("strLen: %T", v)})
}

// bytesEqTerm is the term "a == b" for two byte lists.
func bytesEqTerm(a, b []value) *Term {
	if len(a) != len(b) {
		return FalseT
	}
	var cs []*Term
	for i := range a {
		x, xc := a[i].(uint8)
		y, yc := b[i].(uint8)
		if xc && yc {
			if x != y {
				return FalseT
			}
			continue
		}
		xo, xt := a[i].(*opaque)
		yo, yt := b[i].(*opaque)
		if xt || yt {
			// proto.Marshal tokens: equal bytes iff equal message content (deterministic encoder)
			if !xt || !yt || xo.kind != "proto" || yo.kind != "proto" {
				panic(unsupported{"comparison of marshalled-message bytes with other bytes"})
			}
			tx, ty := xo.p.(*protoToken), yo.p.(*protoToken)
			if !types.Identical(tx.t, ty.t) {
				panic(unsupported{"comparison of marshalled bytes of two message types"})
			}
			c := deepEqTerm(tx.v, ty.v, tx.t)
			if c.IsFalse() {
				return FalseT
			}
			cs = append(cs, c)
			continue
		}
		cs = append(cs, Eq(termOf(a[i]), termOf(b[i])))
	}
	return And(cs...)
}

// deepEqTerm is the term "x and y, values of static type t, have the same content"
// (pointers are followed; proto bookkeeping fields are ignored; nil and empty slices are the
// same content, as on the wire).
func deepEqTerm(x, y value, t types.Type) *Term {
	switch tt := t.Underlying().(type) {
	case *types.Pointer:
		px, _ := x.(*value)
		py, _ := y.(*value)
		if px == nil || py == nil {
			return BoolT(px == nil && py == nil)
		}
		return deepEqTerm(*px, *py, tt.Elem())
	case *types.Struct:
		sx, ok1 := x.(structure)
		sy, ok2 := y.(structure)
		if !ok1 || !ok2 {
			return eqTerm(x, y)
		}
		var cs []*Term
		for i := range sx {
			switch tt.Field(i).Name() {
			case "state", "sizeCache", "unknownFields":
				continue
			}
			c := deepEqTerm(sx[i], sy[i], tt.Field(i).Type())
			if c.IsFalse() {
				return FalseT
			}
			cs = append(cs, c)
		}
		return And(cs...)
	case *types.Slice:
		sx, _ := x.([]value)
		sy, _ := y.([]value)
		if len(sx) != len(sy) {
			return FalseT
		}
		if b, ok := tt.Elem().Underlying().(*types.Basic); ok && b.Kind() == types.Uint8 {
			return bytesEqTerm(sx, sy)
		}
		var cs []*Term
		for i := range sx {
			c := deepEqTerm(sx[i], sy[i], tt.Elem())
			if c.IsFalse() {
				return FalseT
			}
			cs = append(cs, c)
		}
		return And(cs...)
	case *types.Interface:
		ix, ok1 := x.(iface)
		iy, ok2 := y.(iface)
		if !ok1 || !ok2 {
			panic(unsupported{"deep comparison of non-interface values at interface type"})
		}
		if !sameType(ix.t, iy.t) {
			return FalseT
		}
		if ix.t == nil {
			return TrueT
		}
		return deepEqTerm(ix.v, iy.v, ix.t)
	case *types.Map:
		mx, _ := x.(*omap)
		my, _ := y.(*omap)
		nx, ny := 0, 0
		if mx != nil {
			nx = len(mx.entries)
		}
		if my != nil {
			ny = len(my.entries)
		}
		if nx == 0 && ny == 0 {
			return TrueT
		}
		if nx != ny {
			return FalseT
		}
		var cs []*Term
		for _, ex := range mx.entries {
			if !ex.conc {
				panic(unsupported{"deep comparison of maps with symbolic keys"})
			}
			ey, ok := my.idx[ex.ck]
			if !ok {
				for _, e := range my.entries {
					if !e.conc {
						panic(unsupported{"deep comparison of maps with symbolic keys"})
					}
				}
				return FalseT
			}
			c := deepEqTerm(ex.val, ey.val, tt.Elem())
			if c.IsFalse() {
				return FalseT
			}
			cs = append(cs, c)
		}
		return And(cs...)
	}
	return eqTerm(x, y)
}

// bytesLtTerm is the term "a < b" (lexicographic).
func bytesLtTerm(a, b []value) *Term {
	// from the end: lt_i = a[i]<b[i] || (a[i]==b[i] && lt_{i+1}); base: len(a)<len(b) at common end
	n := len(a)
	if len(b) < n {
		n = len(b)
	}
	res := BoolT(len(a) < len(b))
	for i := n - 1; i >= 0; i-- {
		x, y := termOf(a[i]), termOf(b[i])
		res = Or(Bin("bvult", x, y), And(Eq(x, y), res))
	}
	return res
}

// ---------- equality ----------

func sameType(x, y types.Type) bool {
	if x == nil {
		return y == nil
	}
	return y != nil && types.Identical(x, y)
}

// eqTerm returns the term for x == y at static type t (may be nil for
// dynamic comparison inside interfaces).
func eqTerm(x, y value) *Term {
	switch x := x.(type) {
	case sym:
		return Eq(x.t, termOf(y))
	case sstring:
		return bytesEqTerm(x.b, strBytes(y))
	case string:
		if ys, ok := y.(string); ok {
			return BoolT(x == ys)
		}
		return bytesEqTerm(strBytes(x), strBytes(y))
	case bool, int, int8, int16, int32, int64, uint, uint8, uint16, uint32, uint64, uintptr:
		if ys, ok := y.(sym); ok {
			return Eq(termOf(x), ys.t)
		}
		return BoolT(x == y)
	case float32:
		return BoolT(x == y.(float32))
	case float64:
		return BoolT(x == y.(float64))
	case complex64:
		return BoolT(x == y.(complex64))
	case complex128:
		return BoolT(x == y.(complex128))
	case *value:
		return BoolT(x == y.(*value))
	case unsafe.Pointer:
		return BoolT(x == y.(unsafe.Pointer))
	case chan value:
		return BoolT(x == y.(chan value))
	case structure:
		ys := y.(structure)
		cs := make([]*Term, 0, len(x))
		for i := range x {
			c := eqTerm(x[i], ys[i])
			if c.IsFalse() {
				return FalseT
			}
			cs = append(cs, c)
		}
		return And(cs...)
	case array:
		ys := y.(array)
		cs := make([]*Term, 0, len(x))
		for i := range x {
			c := eqTerm(x[i], ys[i])
			if c.IsFalse() {
				return FalseT
			}
			cs = append(cs, c)
		}
		return And(cs...)
	case iface:
		yi := y.(iface)
		if !sameType(x.t, yi.t) {
			return FalseT
		}
		if x.t == nil {
			return TrueT
		}
		return eqTerm(x.v, yi.v)
	case rtype:
		return BoolT(types.Identical(x.t, y.(rtype).t))
	case *opaque:
		yo, _ := y.(*opaque)
		return BoolT(x == yo)
	case *omap:
		ym, _ := y.(*omap)
		return BoolT(x == ym)
	case *ssa.Function:
		yf, _ := y.(*ssa.Function)
		return BoolT(x == yf)
	}
	panic(unsupported{fmt.Sprintf("comparing uncomparable or unsupported %T", x)})
}

// ckey returns a canonical key for a fully concrete comparable value.
func ckey(buf *bytes.Buffer, v value) bool {
	switch v := v.(type) {
	case sym, sstring:
		return false
	case string:
		buf.WriteString("s")
		fmt.Fprintf(buf, "%d:", len(v))
		buf.WriteString(v)
	case bool, int, int8, int16, int32, int64, uint, uint8, uint16, uint32, uint64, uintptr:
		fmt.Fprintf(buf, "%T%v;", v, v)
	case float32:
		fmt.Fprintf(buf, "f%x;", math.Float32bits(v))
	case float64:
		fmt.Fprintf(buf, "F%x;", math.Float64bits(v))
	case *value:
		fmt.Fprintf(buf, "p%p;", v)
	case structure:
		buf.WriteString("{")
		for _, f := range v {
			if !ckey(buf, f) {
				return false
			}
		}
		buf.WriteString("}")
	case array:
		buf.WriteString("[")
		for _, f := range v {
			if !ckey(buf, f) {
				return false
			}
		}
		buf.WriteString("]")
	case iface:
		if v.t == nil {
			buf.WriteString("nil;")
		} else {
			buf.WriteString("i<" + v.t.String() + ">")
			return ckey(buf, v.v)
		}
	case *opaque:
		fmt.Fprintf(buf, "o%p;", v)
	case rtype:
		buf.WriteString("T<" + v.t.String() + ">")
	default:
		panic(unsupported{fmt.Sprintf("map key of type %T", v)})
	}
	return true
}

// ---------- ordered map ----------

type oentry struct {
	key, val value
	ck       string
	conc     bool
}

type omap struct {
	keyType types.Type
	entries []*oentry
	idx     map[string]*oentry
	nsym    int
}

func newMap(kt types.Type) *omap {
	return &omap{keyType: kt, idx: map[string]*oentry{}}
}

func (m *omap) len() int {
	if m == nil {
		return 0
	}
	return len(m.entries)
}

// find returns the entry equal to key, forking on symbolic equalities.
func (m *omap) find(ex *Exec, key value) *oentry {
	if m == nil {
		return nil
	}
	var buf bytes.Buffer
	conc := ckey(&buf, key)
	if conc {
		if e, ok := m.idx[buf.String()]; ok {
			return e
		}
		if m.nsym == 0 {
			return nil
		}
	}
	for _, e := range m.entries {
		if conc && e.conc {
			continue
		}
		c := eqTerm(key, e.key)
		if ex.decide(c) {
			return e
		}
	}
	return nil
}

func (m *omap) insert(ex *Exec, key, val value) {
	if e := m.find(ex, key); e != nil {
		e.val = val
		return
	}
	var buf bytes.Buffer
	e := &oentry{key: key, val: val}
	if ckey(&buf, key) {
		e.conc = true
		e.ck = buf.String()
		m.idx[e.ck] = e
	} else {
		m.nsym++
	}
	m.entries = append(m.entries, e)
}

func (m *omap) delete(ex *Exec, key value) {
	e := m.find(ex, key)
	if e == nil {
		return
	}
	for i, x := range m.entries {
		if x == e {
			m.entries = append(m.entries[:i:i], m.entries[i+1:]...)
			break
		}
	}
	if e.conc {
		delete(m.idx, e.ck)
	} else {
		m.nsym--
	}
}

type omapIter struct {
	snap []*oentry
	m    *omap
	i    int
}

func (it *omapIter) next() tuple {
	for it.i < len(it.snap) {
		e := it.snap[it.i]
		it.i++
		// skip entries deleted during iteration
		live := false
		for _, x := range it.m.entries {
			if x == e {
				live = true
				break
			}
		}
		if live {
			return tuple{true, e.key, e.val}
		}
	}
	return tuple{false, nil, nil}
}

type stringIter struct {
	b []value
	i int
}

func (it *stringIter) next() tuple {
	if it.i >= len(it.b) {
		return tuple{false, nil, nil}
	}
	// decode UTF-8 over concrete bytes; symbolic bytes must be provably ASCII
	c, ok := it.b[it.i].(uint8)
	if !ok {
		panic(unsupported{"range over string with symbolic byte"})
	}
	if c < 0x80 {
		idx := it.i
		it.i++
		return tuple{true, idx, rune(c)}
	}
	// multi-byte: need all concrete
	var bs []byte
	for j := it.i; j < len(it.b) && j < it.i+4; j++ {
		cb, ok := it.b[j].(uint8)
		if !ok {
			break
		}
		bs = append(bs, cb)
	}
	r, n := decodeRune(bs)
	idx := it.i
	it.i += n
	return tuple{true, idx, r}
}
