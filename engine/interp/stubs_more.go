package interp

import (
	"fmt"
	"go/token"
	"go/types"
	"strings"
)

func registerStoreStubs(e *Engine) {
	// the two unsafe one-liners of the marshaller are the conversions they stand for
	e.reg(RepoModule+"/storage/store/marshaller.unsafeGetString", func(fr *frame, args []value) value { return mkstr(args[0].([]value)) })
	e.reg(RepoModule+"/storage/store/marshaller.unsafeGetBytes", func(fr *frame, args []value) value {
		b := strBytes(args[0])
		out := make([]value, len(b))
		copy(out, b)
		return out
	})
	e.reg(RepoModule+"/storage/execout/pb.unsafeGetString", func(fr *frame, args []value) value { return mkstr(args[0].([]value)) })
	// derr.NewFatalError wraps an error so that RetryContext stops retrying and returns the original
	e.reg("github.com/streamingfast/derr.NewFatalError", func(fr *frame, args []value) value {
		if oi, ok := args[0].(iface); ok && oi.t == nil {
			panic(rtPanic("the 'original' argument is mandatory"))
		}
		v := value(structure{args[0]})
		return &v
	})
	fatalOriginal := func(v value) (value, bool) {
		i, ok := v.(iface)
		if !ok || i.t == nil || !strings.HasSuffix(i.t.String(), "streamingfast/derr.FatalError") {
			return nil, false
		}
		p, ok := i.v.(*value)
		if !ok || p == nil {
			return nil, false
		}
		if st, ok := (*p).(structure); ok && len(st) == 1 {
			return st[0], true
		}
		return nil, false
	}
	// derr.RetryContext: f is called until it returns nil or a FatalError (whose original error
	// is returned), at most retries+1 times, no sleeping
	e.reg("github.com/streamingfast/derr.RetryContext", func(fr *frame, args []value) value {
		n := asInt64c(args[1])
		var last value = iface{}
		for i := int64(0); i <= n; i++ {
			last = fr.ex.call(fr, 0, args[2], []value{args[0]})
			if li, ok := last.(iface); ok && li.t == nil {
				return last
			}
			if orig, ok := fatalOriginal(last); ok {
				return orig
			}
		}
		return last
	})
	e.reg("github.com/streamingfast/derr.Retry", func(fr *frame, args []value) value {
		n := asInt64c(args[0])
		var last value = iface{}
		for i := int64(0); i <= n; i++ {
			last = fr.ex.call(fr, 0, args[1], []value{uint64(i)})
			if li, ok := last.(iface); ok && li.t == nil {
				return last
			}
		}
		return last
	})
	// opaque cursor encoding: an injective, invertible text mapping
	e.reg("github.com/streamingfast/opaque.EncodeString", func(fr *frame, args []value) value {
		return mkstr(append(strBytes("opq:"), strBytes(args[0])...))
	})
	e.reg("github.com/streamingfast/opaque.DecodeToString", func(fr *frame, args []value) value {
		b := strBytes(args[0])
		if len(b) >= 4 {
			if c, ok := bytesOfConcrete(b[:4]); ok && string(c) == "opq:" {
				return tuple{mkstr(b[4:]), iface{}}
			}
		}
		if _, ok := args[0].(string); !ok {
			panic(unsupported{"opaque.DecodeToString of a symbolic string"})
		}
		return tuple{"", mkError("invalid opaque string", nil)}
	})
	readAll := func(fr *frame, args []value) value {
		r := args[0].(iface)
		var out []value
		for i := 0; i < 1<<16; i++ {
			buf := make([]value, 512)
			for j := range buf {
				buf[j] = uint8(0)
			}
			res, ok := fr.ex.callMethod(fr, r, "Read", buf)
			if !ok {
				panic(unsupported{"io.ReadAll on a reader without Read"})
			}
			t := res.(tuple)
			n := int(asInt64c(t[0]))
			out = append(out, buf[:n]...)
			if e, isI := t[1].(iface); isI && e.t != nil {
				if eqTerm(e, fr.ex.sentinel("io.EOF", "EOF")).IsTrue() {
					if out == nil {
						out = []value{}
					}
					return tuple{out, iface{}}
				}
				return tuple{out, e}
			}
		}
		panic(unsupported{"io.ReadAll: reader never ends"})
	}
	e.reg("io.ReadAll", readAll)
	e.reg("io/ioutil.ReadAll", readAll)
}

// ---- strings.Builder (uses unsafe in the real implementation) ----

func registerBuilderStubs(e *Engine) {
	buf := func(v value) *value {
		p := nilCheck(v.(*value))
		st := (*p).(structure)
		return &st[1] // strings.Builder{addr, buf}
	}
	app := func(v value, bs []value) {
		b := buf(v)
		cur, _ := (*b).([]value)
		*b = append(cur, bs...)
	}
	e.reg("(*strings.Builder).WriteString", func(fr *frame, args []value) value {
		app(args[0], strBytes(args[1]))
		return tuple{strLen(args[1]), iface{}}
	})
	e.reg("(*strings.Builder).Write", func(fr *frame, args []value) value {
		app(args[0], args[1].([]value))
		return tuple{len(args[1].([]value)), iface{}}
	})
	e.reg("(*strings.Builder).WriteByte", func(fr *frame, args []value) value {
		app(args[0], []value{args[1]})
		return iface{}
	})
	e.reg("(*strings.Builder).WriteRune", func(fr *frame, args []value) value {
		r, ok := args[1].(int32)
		if !ok {
			panic(unsupported{"WriteRune of symbolic rune"})
		}
		s := string(r)
		app(args[0], strBytes(s))
		return tuple{len(s), iface{}}
	})
	e.reg("(*strings.Builder).String", func(fr *frame, args []value) value {
		cur, _ := (*buf(args[0])).([]value)
		return mkstr(cur)
	})
	e.reg("(*strings.Builder).Len", func(fr *frame, args []value) value {
		cur, _ := (*buf(args[0])).([]value)
		return len(cur)
	})
	e.reg("(*strings.Builder).Reset", func(fr *frame, args []value) value {
		*buf(args[0]) = []value(nil)
		return nil
	})
	e.reg("(*strings.Builder).Grow", noop)
}

// ---- sync/atomic ----

func registerAtomicStubs(e *Engine) {
	for _, ty := range []string{"Int32", "Int64", "Uint32", "Uint64", "Uintptr", "Pointer"} {
		ty := ty
		e.reg("sync/atomic.Load"+ty, func(fr *frame, args []value) value { return *nilCheck(args[0].(*value)) })
		e.reg("sync/atomic.Store"+ty, func(fr *frame, args []value) value { *nilCheck(args[0].(*value)) = args[1]; return nil })
		e.reg("sync/atomic.Swap"+ty, func(fr *frame, args []value) value {
			p := nilCheck(args[0].(*value))
			old := *p
			*p = args[1]
			return old
		})
		e.reg("sync/atomic.Add"+ty, func(fr *frame, args []value) value {
			p := nilCheck(args[0].(*value))
			*p = fr.ex.binop(tokADD, nil, *p, args[1])
			return *p
		})
		e.reg("sync/atomic.CompareAndSwap"+ty, func(fr *frame, args []value) value {
			p := nilCheck(args[0].(*value))
			if fr.ex.decide(eqTerm(*p, args[1])) {
				*p = args[2]
				return true
			}
			return false
		})
	}
	// typed atomics: the value is the last field of the struct
	last := func(v value) *value {
		st := (*nilCheck(v.(*value))).(structure)
		return &st[len(st)-1]
	}
	for _, ty := range []string{"Int32", "Int64", "Uint32", "Uint64", "Bool"} {
		ty := ty
		pfx := "(*sync/atomic." + ty + ")."
		e.reg(pfx+"Load", func(fr *frame, args []value) value {
			v := *last(args[0])
			if ty == "Bool" {
				return asInt64c(v) != 0
			}
			return v
		})
		e.reg(pfx+"Store", func(fr *frame, args []value) value {
			if ty == "Bool" {
				if args[1].(bool) {
					*last(args[0]) = uint32(1)
				} else {
					*last(args[0]) = uint32(0)
				}
				return nil
			}
			*last(args[0]) = args[1]
			return nil
		})
		e.reg(pfx+"Add", func(fr *frame, args []value) value {
			p := last(args[0])
			*p = fr.ex.binop(tokADD, nil, *p, args[1])
			return *p
		})
		e.reg(pfx+"Swap", func(fr *frame, args []value) value {
			p := last(args[0])
			old := *p
			*p = args[1]
			return old
		})
		e.reg(pfx+"CompareAndSwap", func(fr *frame, args []value) value {
			p := last(args[0])
			if ty == "Bool" {
				cur := asInt64c(*p) != 0
				if cur == args[1].(bool) {
					if args[2].(bool) {
						*p = uint32(1)
					} else {
						*p = uint32(0)
					}
					return true
				}
				return false
			}
			if fr.ex.decide(eqTerm(*p, args[1])) {
				*p = args[2]
				return true
			}
			return false
		})
	}
	e.reg("(*sync/atomic.Value).Load", func(fr *frame, args []value) value {
		st := (*nilCheck(args[0].(*value))).(structure)
		if i, ok := st[0].(iface); ok {
			return i
		}
		return iface{}
	})
	e.reg("(*sync/atomic.Value).Store", func(fr *frame, args []value) value {
		st := (*nilCheck(args[0].(*value))).(structure)
		st[0] = args[1]
		return nil
	})
}

// ---- context ----

type engCtx struct {
	parent   *engCtx
	key, val value
	err      value
}

var engCtxType *engType

func init() {
	engCtxType = newEngType("engContext", types.NewPointer(types.Typ[types.Int]), map[string]engMethod{
		"Done": func(fr *frame, recv value, args []value) value { return (*opaque)(nil) },
		"Err": func(fr *frame, recv value, args []value) value {
			for c := recv.(*opaque).p.(*engCtx); c != nil; c = c.parent {
				if c.err != nil {
					return c.err
				}
			}
			return iface{}
		},
		"Deadline": func(fr *frame, recv value, args []value) value {
			return tuple{zero(fr.fn.Signature.Results().At(0).Type()), false}
		},
		"Value": func(fr *frame, recv value, args []value) value {
			for c := recv.(*opaque).p.(*engCtx); c != nil; c = c.parent {
				if c.key != nil {
					ck, ok1 := c.key.(iface)
					ak, ok2 := args[0].(iface)
					if ok1 && ok2 && sameType(ck.t, ak.t) && ck.t != nil && eqTerm(ck.v, ak.v).IsTrue() {
						return c.val
					}
				}
			}
			return iface{}
		},
	})
}

func mkCtx(c *engCtx) value {
	return iface{t: engCtxType.named, v: &opaque{kind: "ctx", p: c}}
}

func ctxOf(v value) *engCtx {
	i, ok := v.(iface)
	if !ok || i.t != engCtxType.named {
		panic(unsupported{fmt.Sprintf("context value not created by the engine: %v", v)})
	}
	return i.v.(*opaque).p.(*engCtx)
}

func registerContextStubs(e *Engine) {
	e.reg("context.Background", func(fr *frame, args []value) value { return mkCtx(&engCtx{}) })
	e.reg("context.TODO", func(fr *frame, args []value) value { return mkCtx(&engCtx{}) })
	e.reg("context.WithValue", func(fr *frame, args []value) value {
		return mkCtx(&engCtx{parent: ctxOf(args[0]), key: args[1], val: args[2]})
	})
	cancelable := func(fr *frame, args []value) value {
		c := &engCtx{parent: ctxOf(args[0])}
		cancel := &builtinFn{name: "cancel", f: func(fr *frame, a []value) value {
			if c.err == nil {
				c.err = fr.ex.sentinel("context.Canceled", "context canceled")
			}
			return nil
		}}
		return tuple{mkCtx(c), cancel}
	}
	e.reg("context.WithCancel", cancelable)
	e.reg("context.WithTimeout", cancelable)
	e.reg("context.WithDeadline", cancelable)
	e.reg("context.Cause", func(fr *frame, args []value) value {
		r, _ := fr.ex.callMethod(fr, args[0].(iface), "Err")
		return r
	})
}

// knownGlobal supplies the few globals of bodyless packages the checks rely on.
func (ex *Exec) knownGlobal(g interface{ String() string }) (value, bool) {
	name := g.String()
	switch name {
	case "io.EOF":
		return ex.sentinel(name, "EOF"), true
	case "io.ErrUnexpectedEOF":
		return ex.sentinel(name, "unexpected EOF"), true
	case "io.ErrShortBuffer":
		return ex.sentinel(name, "short buffer"), true
	case "io.ErrShortWrite":
		return ex.sentinel(name, "short write"), true
	case "context.Canceled":
		return ex.sentinel(name, "context canceled"), true
	case "context.DeadlineExceeded":
		return ex.sentinel(name, "context deadline exceeded"), true
	case "github.com/streamingfast/dstore.ErrNotFound":
		return ex.sentinel(name, "not found"), true
	case "github.com/streamingfast/dstore.StopIteration":
		return ex.sentinel(name, "stop iteration"), true
	case "os.ErrNotExist", "io/fs.ErrNotExist":
		return ex.sentinel("fs.ErrNotExist", "file does not exist"), true
	}
	if strings.HasPrefix(name, "go.uber.org/zap") {
		return zero(types.Typ[types.Int]), false
	}
	return nil, false
}

const tokADD = token.ADD

// newStructPtr allocates a zero value of the pointed-to struct type and sets fields by name.
func newStructPtr(ptrType types.Type, fields map[string]value) value {
	elem := mustDeref(ptrType)
	cell := zero(elem)
	st := cell.(structure)
	tst := elem.Underlying().(*types.Struct)
	for i := 0; i < tst.NumFields(); i++ {
		if v, ok := fields[tst.Field(i).Name()]; ok {
			st[i] = v
		}
	}
	return &cell
}

func registerConnectStubs(e *Engine) {
	// connect.NewError(code, err) *Error: a plain struct carrying code and the wrapped error
	e.reg("connectrpc.com/connect.NewError", func(fr *frame, args []value) value {
		return newStructPtr(fr.fn.Signature.Results().At(0).Type(), map[string]value{"code": args[0], "err": args[1]})
	})
	e.reg("(*connectrpc.com/connect.Error).Error", func(fr *frame, args []value) value {
		st := (*nilCheck(args[0].(*value))).(structure)
		for _, f := range st {
			if i, ok := f.(iface); ok && i.t != nil {
				return "connect error: " + fr.ex.errorText(fr, i)
			}
		}
		return "connect error"
	})
	e.reg("(*connectrpc.com/connect.Error).Unwrap", func(fr *frame, args []value) value {
		st := (*nilCheck(args[0].(*value))).(structure)
		for _, f := range st {
			if i, ok := f.(iface); ok && i.t != nil {
				return i
			}
		}
		return iface{}
	})
}
