package interp

// math/big.Int modelled as a 64-bit two's complement integer (the harnesses
// bound magnitudes by digit count, so no operation overflows), fmt verbs over
// symbolic operands, logging tracer.

import (
	"fmt"
	"go/types"
	"math/big"
	"strings"
)

// big.Int is struct{neg bool; abs nat}. The engine keeps the value in field 1
// as an int64 (concrete or symbolic); a nil/empty nat reads as 0.
func bigCell(v value) *value {
	p, ok := v.(*value)
	if !ok || p == nil {
		panic(rtPanic("invalid memory address or nil pointer dereference (nil *big.Int)"))
	}
	st, ok := (*p).(structure)
	if !ok {
		panic(unsupported{"big.Int receiver is not a struct"})
	}
	return &st[1]
}

func bigGet(v value) value {
	c := *bigCell(v)
	switch x := c.(type) {
	case int64, sym:
		return x
	case []value:
		if len(x) == 0 {
			return int64(0)
		}
	}
	panic(unsupported{fmt.Sprintf("big.Int with native representation %T", c)})
}

func bigSet(v value, x value) { *bigCell(v) = x }

func (ex *Exec) newBig(fr *frame, x value) value {
	t := fr.fn.Signature.Results().At(0).Type()
	cell := zero(mustDeref(t))
	p := &cell
	bigSet(p, x)
	return p
}

func registerNumStubs(e *Engine) {
	e.reg("math/big.NewInt", func(fr *frame, args []value) value { return fr.ex.newBig(fr, args[0]) })
	e.reg("(*math/big.Int).SetInt64", func(fr *frame, args []value) value { bigSet(args[0], args[1]); return args[0] })
	e.reg("(*math/big.Int).SetUint64", func(fr *frame, args []value) value {
		bigSet(args[0], fr.ex.conv(types.Typ[types.Int64], types.Typ[types.Uint64], args[1]))
		return args[0]
	})
	e.reg("(*math/big.Int).Set", func(fr *frame, args []value) value { bigSet(args[0], bigGet(args[1])); return args[0] })
	e.reg("(*math/big.Int).Int64", func(fr *frame, args []value) value { return bigGet(args[0]) })
	e.reg("(*math/big.Int).IsInt64", func(fr *frame, args []value) value { return true })
	e.reg("(*math/big.Int).Sign", func(fr *frame, args []value) value {
		x := termOf(bigGet(args[0]))
		return mkval(Ite(Bin("bvslt", x, BV(64, 0)), BV(64, ^uint64(0)), Ite(Eq(x, BV(64, 0)), BV(64, 0), BV(64, 1))), types.Int)
	})
	e.reg("(*math/big.Int).String", func(fr *frame, args []value) value {
		if p, ok := args[0].(*value); ok && p == nil {
			return "<nil>"
		}
		return fr.ex.formatInt(bigGet(args[0]), true)
	})
	e.reg("(*math/big.Int).SetString", func(fr *frame, args []value) value {
		if b := asInt64c(args[2]); b != 10 {
			panic(unsupported{"big.Int.SetString base != 10"})
		}
		r := fr.ex.parseIntTo(args[1], types.Int64, true)
		if r.err {
			return tuple{(*value)(nil), false}
		}
		bigSet(args[0], r.v)
		return tuple{args[0], true}
	})
	bin := func(op string) externalFn {
		return func(fr *frame, args []value) value {
			x, y := termOf(bigGet(args[1])), termOf(bigGet(args[2]))
			bigSet(args[0], mkval(Bin(op, x, y), types.Int64))
			return args[0]
		}
	}
	e.reg("(*math/big.Int).Add", bin("bvadd"))
	e.reg("(*math/big.Int).Sub", bin("bvsub"))
	e.reg("(*math/big.Int).Mul", bin("bvmul"))
	e.reg("(*math/big.Int).Cmp", func(fr *frame, args []value) value {
		x, y := termOf(bigGet(args[0])), termOf(bigGet(args[1]))
		return mkval(Ite(Bin("bvslt", x, y), BV(64, ^uint64(0)), Ite(Eq(x, y), BV(64, 0), BV(64, 1))), types.Int)
	})
	e.reg("(*math/big.Int).Neg", func(fr *frame, args []value) value {
		bigSet(args[0], mkval(Un("bvneg", termOf(bigGet(args[1]))), types.Int64))
		return args[0]
	})

	// math/bits.Len*: the table-driven implementation would fork 256 ways per
	// lookup on a symbolic operand; the exact value as an ite chain instead.
	lenN := func(w int) externalFn {
		return func(fr *frame, args []value) value {
			sv, ok := args[0].(sym)
			if !ok {
				x := uint64(asInt64c(args[0]))
				n := 0
				for ; x != 0; x >>= 1 {
					n++
				}
				return n
			}
			t := sv.t
			res := BV(64, 0)
			for i := 1; i <= w; i++ {
				// len >= i  <=>  x >= 2^(i-1)
				res = Ite(Not(Bin("bvult", t, BV(t.S, uint64(1)<<uint(i-1)))), BV(64, uint64(i)), res)
			}
			return mkval(res, types.Int)
		}
	}
	e.reg("math/bits.Len64", lenN(64))
	e.reg("math/bits.Len32", lenN(32))
	e.reg("math/bits.Len16", lenN(16))
	e.reg("math/bits.Len8", lenN(8))
	e.reg("math/bits.Len", lenN(64))

	registerBigFloatStubs(e)
	registerDecimalStubs(e)

	// logging.PackageLogger returns (*zap.Logger, Tracer)
	tracerT := newEngType("engTracer", types.NewPointer(types.Typ[types.Int]), map[string]engMethod{
		"Enabled": func(fr *frame, recv value, args []value) value { return false },
	})
	pkgLogger := func(fr *frame, args []value) value {
		lg := value(&opaque{kind: "env:*zap.Logger"})
		return tuple{&lg, iface{t: tracerT.named, v: &opaque{kind: "tracer"}}}
	}
	e.reg("github.com/streamingfast/logging.PackageLogger", pkgLogger)
	e.reg("github.com/streamingfast/logging.RootLogger", pkgLogger)
	e.reg("github.com/streamingfast/logging.ApplicationLogger", pkgLogger)
}

type parsed struct {
	v   value
	err bool
}

// parseIntTo parses decimal text into kind k, forking on syntax errors.
func (ex *Exec) parseIntTo(sv value, k types.BasicKind, signed bool) parsed {
	if s, ok := sv.(string); ok {
		var n int64
		var err error
		if signed {
			n, err = parseInt64(s)
		} else {
			var u uint64
			u, err = parseUint64(s)
			n = int64(u)
		}
		return parsed{concreteOf(uint64(n), k), err != nil}
	}
	b := strBytes(sv)
	if len(b) == 0 {
		return parsed{concreteOf(0, k), true}
	}
	if len(b) > 18 {
		panic(unsupported{"parse of a symbolic decimal longer than 18 bytes"})
	}
	neg := false
	i := 0
	if signed {
		if ex.decide(eqTerm(b[0], uint8('-'))) {
			neg = true
			i = 1
		} else if ex.decide(eqTerm(b[0], uint8('+'))) {
			i = 1
		}
	}
	if i >= len(b) {
		return parsed{concreteOf(0, k), true}
	}
	acc := BV(64, 0)
	for ; i < len(b); i++ {
		t := termOf(b[i])
		isDigit := And(Bin("bvule", BV(8, '0'), t), Bin("bvule", t, BV(8, '9')))
		if !ex.decide(isDigit) {
			return parsed{concreteOf(0, k), true}
		}
		d := ZeroExt(64, Bin("bvsub", t, BV(8, '0')))
		acc = Bin("bvadd", Bin("bvmul", acc, BV(64, 10)), d)
	}
	if neg {
		acc = Un("bvneg", acc)
	}
	w := kindWidth(k)
	if w < 64 {
		acc = Extract(int(w)-1, 0, acc)
	}
	return parsed{mkval(acc, k), false}
}

// symSprintf formats when some operand is symbolic: literal text, %d, %s, %v, %q(concrete only).
func (ex *Exec) symSprintf(fr *frame, f string, args []value) (value, bool) {
	var out []value
	ai := 0
	for i := 0; i < len(f); i++ {
		c := f[i]
		if c != '%' {
			out = append(out, c)
			continue
		}
		i++
		if i >= len(f) {
			return nil, false
		}
		if f[i] == '%' {
			out = append(out, uint8('%'))
			continue
		}
		if ai >= len(args) {
			return nil, false
		}
		a := args[ai]
		ai++
		if ia, ok := a.(iface); ok {
			a = ia.v
		}
		switch f[i] {
		case 'd', 'v', 's':
			switch x := a.(type) {
			case sym:
				if x.k == types.Bool {
					return nil, false
				}
				out = append(out, strBytes(ex.formatInt(x, kindSigned(x.k)))...)
			case sstring:
				out = append(out, x.b...)
			case string:
				out = append(out, strBytes(x)...)
			case []value:
				if f[i] != 's' {
					return nil, false
				}
				out = append(out, x...)
			case *value:
				// *big.Int
				if x != nil {
					if st, ok := (*x).(structure); ok && len(st) == 2 {
						if _, isB := st[0].(bool); isB {
							out = append(out, strBytes(ex.formatInt(bigGet(x), true))...)
							continue
						}
					}
				}
				return nil, false
			case int, int8, int16, int32, int64:
				out = append(out, strBytes(fmt.Sprint(asInt64c(x)))...)
			case uint, uint8, uint16, uint32, uint64:
				out = append(out, strBytes(fmt.Sprint(uint64(asInt64c(x))))...)
			default:
				return nil, false
			}
		default:
			return nil, false
		}
	}
	return mkstr(out), true
}

func hasSymArg(args []value) bool {
	for _, a := range args {
		if ia, ok := a.(iface); ok {
			a = ia.v
		}
		switch x := a.(type) {
		case sym, sstring:
			return true
		case []value:
			if !allConcrete(x) {
				return true
			}
		case *value:
			if x != nil {
				if st, ok := (*x).(structure); ok && len(st) == 2 {
					if _, isB := st[0].(bool); isB {
						if _, isSym := st[1].(sym); isSym {
							return true
						}
						if _, isI := st[1].(int64); isI {
							return true // engine big.Int: native fmt cannot print it
						}
					}
				}
			}
		}
	}
	return false
}

var _ = strings.Contains

// math/big.Float on concrete values only: the engine keeps a native *big.Float.
func bigFloatOf(v value) *big.Float {
	p, ok := v.(*value)
	if !ok || p == nil {
		panic(rtPanic("invalid memory address or nil pointer dereference (nil *big.Float)"))
	}
	if o, ok := (*p).(*opaque); ok && o.kind == "bigfloat" {
		return o.p.(*big.Float)
	}
	// a zero big.Float allocated by new(big.Float)
	f := new(big.Float)
	*p = &opaque{kind: "bigfloat", p: f}
	return f
}

func newBigFloat(f *big.Float) value {
	v := value(&opaque{kind: "bigfloat", p: f})
	return &v
}

func registerBigFloatStubs(e *Engine) {
	e.reg("math/big.NewFloat", func(fr *frame, args []value) value {
		x, ok := args[0].(float64)
		if !ok {
			panic(unsupported{"big.NewFloat of a symbolic float"})
		}
		return newBigFloat(big.NewFloat(x))
	})
	e.reg("math/big.ParseFloat", func(fr *frame, args []value) value {
		s, ok := args[0].(string)
		if !ok {
			panic(unsupported{"big.ParseFloat of a symbolic string"})
		}
		f, b, err := big.ParseFloat(s, int(asInt64c(args[1])), uint(asInt64c(args[2])), big.RoundingMode(asInt64c(args[3])))
		if err != nil {
			return tuple{(*value)(nil), 0, mkError(err.Error(), nil)}
		}
		return tuple{newBigFloat(f), b, iface{}}
	})
	m := "(*math/big.Float)."
	e.reg(m+"SetPrec", func(fr *frame, args []value) value {
		bigFloatOf(args[0]).SetPrec(uint(asInt64c(args[1])))
		return args[0]
	})
	e.reg(m+"Text", func(fr *frame, args []value) value {
		return bigFloatOf(args[0]).Text(byte(asInt64c(args[1])), int(asInt64c(args[2])))
	})
	e.reg(m+"String", func(fr *frame, args []value) value { return bigFloatOf(args[0]).String() })
	e.reg(m+"Float64", func(fr *frame, args []value) value {
		f, acc := bigFloatOf(args[0]).Float64()
		return tuple{f, concreteOf(uint64(int64(acc)), basicKind(fr.fn.Signature.Results().At(1).Type()))}
	})
	e.reg(m+"Add", func(fr *frame, args []value) value {
		bigFloatOf(args[0]).Add(bigFloatOf(args[1]), bigFloatOf(args[2]))
		return args[0]
	})
	e.reg(m+"Cmp", func(fr *frame, args []value) value { return bigFloatOf(args[0]).Cmp(bigFloatOf(args[1])) })
}
