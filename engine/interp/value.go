// Copyright 2013 The Go Authors. All rights reserved.
// Use of this source code is governed by a BSD-style
// license that can be found in the LICENSE file.

package interp

// Values
//
// All interpreter values are "boxed" in the empty interface, value.
// The range of possible dynamic types within value are:
//
// - bool
// - numbers (all built-in int/float/complex types are distinguished)
// - string
// - map[value]value --- maps for which  usesBuiltinMap(keyType)
//   *hashmap        --- maps for which !usesBuiltinMap(keyType)
// - chan value
// - []value --- slices
// - iface --- interfaces.
// - structure --- structs.  Fields are ordered and accessed by numeric indices.
// - array --- arrays.
// - *value --- pointers.  Careful: *value is a distinct type from *array etc.
// - *ssa.Function \
//   *ssa.Builtin   } --- functions.  A nil 'func' is always of type *ssa.Function.
//   *closure      /
// - tuple --- as returned by Return, Next, "value,ok" modes, etc.
// - iter --- iterators from 'range' over map or string.
// - bad --- a poison pill for locals that have gone out of scope.
// - rtype -- the interpreter's concrete implementation of reflect.Type
// - **deferred -- the address of a frame's defer stack for a Defer._Stack.
//
// Note that nil is not on this list.
//
// Pay close attention to whether or not the dynamic type is a pointer.
// The compiler cannot help you since value is an empty interface.

import (
	"go/types"

	"golang.org/x/tools/go/ssa"
)

type value interface{}

type tuple []value

type array []value

type iface struct {
	t types.Type // never an "untyped" type
	v value
}

type structure []value

// For map, array, *array, slice, string or channel.
type iter interface {
	// next returns a Tuple (key, value, ok).
	// key and value are unaliased, e.g. copies of the sequence element.
	next() tuple
}

type closure struct {
	Fn  *ssa.Function
	Env []value
}

type bad struct{}

type rtype struct {
	t types.Type
}

// Hash functions and equivalence relation:

// hashString computes the FNV hash of s.
// load returns the value of type T in *addr.
func load(T types.Type, addr *value) value {
	switch T := T.Underlying().(type) {
	case *types.Struct:
		v := (*addr).(structure)
		a := make(structure, len(v))
		for i := range a {
			a[i] = load(T.Field(i).Type(), &v[i])
		}
		return a
	case *types.Array:
		v := (*addr).(array)
		a := make(array, len(v))
		for i := range a {
			a[i] = load(T.Elem(), &v[i])
		}
		return a
	default:
		return *addr
	}
}

// store stores value v of type T into *addr.
func store(T types.Type, addr *value, v value) {
	switch T := T.Underlying().(type) {
	case *types.Struct:
		lhs := (*addr).(structure)
		rhs := v.(structure)
		for i := range lhs {
			store(T.Field(i).Type(), &lhs[i], rhs[i])
		}
	case *types.Array:
		lhs := (*addr).(array)
		rhs := v.(array)
		for i := range lhs {
			store(T.Elem(), &lhs[i], rhs[i])
		}
	default:
		*addr = v
	}
}
