package interp

// If-conversion of short pure triangles/diamonds: instead of forking the path
// on a symbolic condition, both sides are evaluated and the phis of the join
// block become ite terms. Only side blocks made of side-effect-free
// instructions that cannot fork or panic on this path are merged.

import (
	"go/token"
	"go/types"

	"golang.org/x/tools/go/ssa"
)

var sideCache = map[*ssa.BasicBlock]int8{} // 0 unknown, 1 yes, -1 no (guarded by sideMu)

func staticSide(b, pred *ssa.BasicBlock) bool {
	if len(b.Preds) != 1 || b.Preds[0] != pred || len(b.Succs) != 1 {
		return false
	}
	if len(b.Instrs) > 12 {
		return false
	}
	for i, in := range b.Instrs {
		if i == len(b.Instrs)-1 {
			if _, ok := in.(*ssa.Jump); !ok {
				return false
			}
			continue
		}
		switch in := in.(type) {
		case *ssa.BinOp:
			if in.Op == token.QUO || in.Op == token.REM {
				return false
			}
		case *ssa.UnOp:
			if in.Op == token.ARROW {
				return false
			}
		case *ssa.Convert, *ssa.ChangeType, *ssa.ChangeInterface, *ssa.MakeInterface, *ssa.Field, *ssa.FieldAddr, *ssa.DebugRef:
		case *ssa.Call:
			bi, ok := in.Call.Value.(*ssa.Builtin)
			if !ok || (bi.Name() != "len" && bi.Name() != "cap" && bi.Name() != "min" && bi.Name() != "max") {
				return false
			}
		default:
			return false
		}
	}
	return true
}

// specExec evaluates the pure instructions of a side block; false = bail out.
func (ex *Exec) specExec(fr *frame, b *ssa.BasicBlock) (ok bool) {
	defer func() {
		if r := recover(); r != nil {
			switch r.(type) {
			case pathEnd:
				panic(r)
			}
			ok = false
		}
	}()
	for _, in := range b.Instrs[:len(b.Instrs)-1] {
		switch in := in.(type) {
		case *ssa.DebugRef:
			continue
		case *ssa.BinOp:
			if in.Op == token.SHL || in.Op == token.SHR {
				if isSym(fr.get(in.Y)) {
					return false
				}
			}
			x, y := fr.get(in.X), fr.get(in.Y)
			if in.Op == token.EQL || in.Op == token.NEQ {
				// comparing maps/strings is fine; anything that could fork is excluded below
			}
			if _, isMap := x.(*omap); isMap {
				_ = y
			}
		case *ssa.UnOp:
			if in.Op == token.MUL {
				p, isPtr := fr.get(in.X).(*value)
				if !isPtr || p == nil {
					return false
				}
			}
		case *ssa.FieldAddr:
			p, isPtr := fr.get(in.X).(*value)
			if !isPtr || p == nil {
				return false
			}
		}
		before := len(ex.decisions)
		cur := ex.cursor
		visitInstr(fr, in)
		if len(ex.decisions) != before || ex.cursor != cur {
			panic("speculative evaluation made a decision") // cannot happen with the whitelist
		}
	}
	return true
}

func predIndex(b, pred *ssa.BasicBlock) int {
	for i, p := range b.Preds {
		if p == pred {
			return i
		}
	}
	return -1
}

// tryMerge attempts if-conversion at the If terminating fr.block.
func (ex *Exec) tryMerge(fr *frame, c *Term) bool {
	if ex.eng.Cfg.NoMerge {
		return false
	}
	b := fr.block
	T, F := b.Succs[0], b.Succs[1]
	var join, sideT, sideF *ssa.BasicBlock
	switch {
	case staticSide(T, b) && T.Succs[0] == F:
		join, sideT = F, T
	case staticSide(F, b) && F.Succs[0] == T:
		join, sideF = T, F
	case staticSide(T, b) && staticSide(F, b) && T.Succs[0] == F.Succs[0]:
		join, sideT, sideF = T.Succs[0], T, F
	default:
		return false
	}
	if join == b {
		return false
	}
	if sideT != nil && !ex.specExec(fr, sideT) {
		return false
	}
	if sideF != nil && !ex.specExec(fr, sideF) {
		return false
	}
	fromT, fromF := b, b
	if sideT != nil {
		fromT = sideT
	}
	if sideF != nil {
		fromF = sideF
	}
	iT, iF := predIndex(join, fromT), predIndex(join, fromF)
	if iT < 0 || iF < 0 {
		return false
	}
	var phis []*ssa.Phi
	var vals []value
	for _, in := range join.Instrs {
		phi, ok := in.(*ssa.Phi)
		if !ok {
			break
		}
		vT, vF := fr.get(phi.Edges[iT]), fr.get(phi.Edges[iF])
		m, ok := mergeValues(c, vT, vF)
		if !ok {
			return false
		}
		phis = append(phis, phi)
		vals = append(vals, m)
	}
	for i, p := range phis {
		fr.env[p] = vals[i]
	}
	fr.prevBlock = fromT
	fr.block = join
	fr.phisDone = true
	ex.merges++
	return true
}

func mergeValues(c *Term, a, b value) (value, bool) {
	ka, oka := valKind(a)
	kb, okb := valKind(b)
	if oka && okb {
		if kindWidth(ka) != kindWidth(kb) {
			return nil, false
		}
		k := ka
		if !isSym(a) && isSym(b) {
			k = kb
		}
		return mkval(Ite(c, termOf(a), termOf(b)), k), true
	}
	// identical non-scalars
	switch x := a.(type) {
	case *value:
		if y, ok := b.(*value); ok && x == y {
			return a, true
		}
	case string:
		if y, ok := b.(string); ok && x == y {
			return a, true
		}
	case nil:
		if b == nil {
			return nil, true
		}
	case iface:
		if y, ok := b.(iface); ok && x.t == nil && y.t == nil {
			return a, true
		}
	}
	return nil, false
}

var _ = types.Bool
