package interp

// google.golang.org/protobuf/proto.Marshal/Unmarshal as a faithful round trip:
// the "bytes" are a one-element token slice holding a deep copy of the message
// (empty repeated/bytes fields come back nil, as proto3 decoding gives).

import (
	"fmt"
	"go/types"
)

func deepCopy(v value, t types.Type) value {
	switch tt := t.Underlying().(type) {
	case *types.Pointer:
		p, ok := v.(*value)
		if !ok || p == nil {
			return v
		}
		c := deepCopy(*p, tt.Elem())
		return &c
	case *types.Struct:
		st, ok := v.(structure)
		if !ok {
			return v
		}
		out := make(structure, len(st))
		for i := range st {
			f := tt.Field(i)
			switch f.Name() {
			case "state", "sizeCache", "unknownFields":
				out[i] = zero(f.Type())
			default:
				out[i] = deepCopy(st[i], f.Type())
			}
		}
		return out
	case *types.Slice:
		sl, ok := v.([]value)
		if !ok || len(sl) == 0 {
			return []value(nil)
		}
		out := make([]value, len(sl))
		for i := range sl {
			out[i] = deepCopy(sl[i], tt.Elem())
		}
		return out
	case *types.Map:
		m, ok := v.(*omap)
		if !ok || m == nil || len(m.entries) == 0 {
			return (*omap)(nil)
		}
		out := newMap(tt.Key())
		for _, e := range m.entries {
			ne := &oentry{key: e.key, val: deepCopy(e.val, tt.Elem()), ck: e.ck, conc: e.conc}
			out.entries = append(out.entries, ne)
			if ne.conc {
				out.idx[ne.ck] = ne
			} else {
				out.nsym++
			}
		}
		return out
	case *types.Interface:
		i, ok := v.(iface)
		if !ok || i.t == nil {
			return v
		}
		return iface{t: i.t, v: deepCopy(i.v, i.t)}
	}
	return v
}

type protoToken struct {
	t types.Type
	v value
}

func registerProtoStubs(e *Engine) {
	marshal := func(fr *frame, args []value) value {
		m, ok := args[len(args)-1].(iface)
		if !ok || m.t == nil {
			return tuple{[]value(nil), iface{}}
		}
		if p, isPtr := m.v.(*value); isPtr && p == nil {
			return tuple{[]value(nil), iface{}}
		}
		tok := &opaque{kind: "proto", p: &protoToken{t: m.t, v: deepCopy(m.v, m.t)}}
		return tuple{[]value{tok}, iface{}}
	}
	e.reg("google.golang.org/protobuf/proto.Marshal", marshal)
	e.reg("google.golang.org/protobuf/proto.Unmarshal", func(fr *frame, args []value) value {
		b, _ := args[0].([]value)
		m := args[1].(iface)
		dst, ok := m.v.(*value)
		if !ok || dst == nil {
			panic(unsupported{"proto.Unmarshal into non-pointer"})
		}
		elemT := mustDeref(m.t)
		if len(b) == 0 {
			store(elemT, dst, zero(elemT))
			return iface{}
		}
		o, ok := b[0].(*opaque)
		if !ok || o.kind != "proto" || len(b) != 1 {
			panic(unsupported{"proto.Unmarshal of bytes that did not come from proto.Marshal"})
		}
		tok := o.p.(*protoToken)
		if !types.Identical(tok.t, m.t) {
			panic(unsupported{fmt.Sprintf("proto.Unmarshal of %s into %s", tok.t, m.t)})
		}
		cp := deepCopy(tok.v, tok.t).(*value)
		store(elemT, dst, *cp)
		return iface{}
	})
	e.reg("google.golang.org/protobuf/proto.Size", func(fr *frame, args []value) value { return 1 })
}
