package interp

// google.golang.org/protobuf/proto.Marshal/Unmarshal as a faithful round trip:
// the "bytes" are a one-element token slice holding a deep copy of the message
// (empty repeated/bytes fields come back nil, as proto3 decoding gives).

import (
	"fmt"
	"go/types"
	"reflect"
	"strings"
)

func deepCopy(v value, t types.Type) value {
	switch tt := t.Underlying().(type) {
	case *types.Pointer:
		p, ok := v.(*value)
		if !ok || p == nil {
			return v
		}
		c := deepCopy(*p, tt.Elem())
		return &c
	case *types.Struct:
		st, ok := v.(structure)
		if !ok {
			return v
		}
		out := make(structure, len(st))
		for i := range st {
			f := tt.Field(i)
			switch f.Name() {
			case "state", "sizeCache", "unknownFields":
				out[i] = zero(f.Type())
			default:
				out[i] = deepCopy(st[i], f.Type())
			}
		}
		return out
	case *types.Slice:
		sl, ok := v.([]value)
		if !ok || len(sl) == 0 {
			return []value(nil)
		}
		out := make([]value, len(sl))
		for i := range sl {
			out[i] = deepCopy(sl[i], tt.Elem())
		}
		return out
	case *types.Map:
		m, ok := v.(*omap)
		if !ok || m == nil || len(m.entries) == 0 {
			return (*omap)(nil)
		}
		out := newMap(tt.Key())
		for _, e := range m.entries {
			ne := &oentry{key: e.key, val: deepCopy(e.val, tt.Elem()), ck: e.ck, conc: e.conc}
			out.entries = append(out.entries, ne)
			if ne.conc {
				out.idx[ne.ck] = ne
			} else {
				out.nsym++
			}
		}
		return out
	case *types.Interface:
		i, ok := v.(iface)
		if !ok || i.t == nil {
			return v
		}
		return iface{t: i.t, v: deepCopy(i.v, i.t)}
	}
	return v
}

// protoField describes one field of a generated message struct from its `protobuf:"..."` tag.
type protoField struct {
	idx  int
	num  string
	wire string // varint, bytes, fixed32, fixed64, zigzag32, ...
	rep  bool
}

func protoFields(st *types.Struct) []protoField {
	var out []protoField
	for i := 0; i < st.NumFields(); i++ {
		tag := reflect.StructTag(st.Tag(i)).Get("protobuf")
		if tag == "" {
			continue
		}
		parts := strings.Split(tag, ",")
		if len(parts) < 2 {
			continue
		}
		f := protoField{idx: i, wire: parts[0], num: parts[1]}
		for _, p := range parts[2:] {
			if p == "rep" {
				f.rep = true
			}
		}
		out = append(out, f)
	}
	return out
}

// protoTranscode builds a message of struct type dstT from a message value of struct type
// srcT the way the wire format would: fields are matched by number and wire type; varint
// fields carry their integer, length-delimited fields their bytes (string <-> bytes) or, for
// nested messages, their transcoded content. Anything else is unsupported.
func protoTranscode(src value, srcT, dstT types.Type) value {
	sst, ok1 := srcT.Underlying().(*types.Struct)
	dst, ok2 := dstT.Underlying().(*types.Struct)
	sv, ok3 := src.(structure)
	if !ok1 || !ok2 || !ok3 {
		panic(unsupported{fmt.Sprintf("proto transcoding of %s into %s", srcT, dstT)})
	}
	out := zero(dstT).(structure)
	sf := protoFields(sst)
	for _, df := range protoFields(dst) {
		for _, f := range sf {
			if f.num != df.num {
				continue
			}
			if f.wire != df.wire || f.rep != df.rep {
				panic(unsupported{fmt.Sprintf("proto transcoding: field %s of %s (%s) into %s (%s)", f.num, srcT, f.wire, dstT, df.wire)})
			}
			out[df.idx] = protoTranscodeField(sv[f.idx], sst.Field(f.idx).Type(), dst.Field(df.idx).Type(), f.wire)
		}
	}
	return out
}

func protoTranscodeField(v value, srcT, dstT types.Type, wire string) value {
	if ss, ok := srcT.Underlying().(*types.Slice); ok {
		if ds, ok := dstT.Underlying().(*types.Slice); ok {
			if b, isByte := ss.Elem().Underlying().(*types.Basic); !isByte || b.Kind() != types.Uint8 {
				sl, _ := v.([]value)
				if len(sl) == 0 {
					return []value(nil)
				}
				res := make([]value, len(sl))
				for i := range sl {
					res[i] = protoTranscodeField(sl[i], ss.Elem(), ds.Elem(), wire)
				}
				return res
			}
		}
	}
	switch wire {
	case "varint":
		sb, ok1 := srcT.Underlying().(*types.Basic)
		db, ok2 := dstT.Underlying().(*types.Basic)
		if ok1 && ok2 && sb.Kind() == db.Kind() {
			return v
		}
		if ok1 && ok2 && sb.Info()&types.IsInteger != 0 && db.Info()&types.IsInteger != 0 && !isSym(v) {
			return concreteOf(uint64(asInt64c(v)), db.Kind())
		}
	case "bytes":
		sp, ok1 := srcT.Underlying().(*types.Pointer)
		dp, ok2 := dstT.Underlying().(*types.Pointer)
		if ok1 && ok2 {
			p, _ := v.(*value)
			if p == nil {
				return (*value)(nil)
			}
			c := protoTranscode(*p, sp.Elem(), dp.Elem())
			return &c
		}
		_, sIsStr := srcT.Underlying().(*types.Basic)
		_, dIsStr := dstT.Underlying().(*types.Basic)
		_, sIsBytes := srcT.Underlying().(*types.Slice)
		_, dIsBytes := dstT.Underlying().(*types.Slice)
		switch {
		case sIsStr && dIsStr, sIsBytes && dIsBytes:
			return deepCopy(v, srcT)
		case sIsStr && dIsBytes:
			b := strBytes(v)
			if len(b) == 0 {
				return []value(nil)
			}
			return append([]value(nil), b...)
		case sIsBytes && dIsStr:
			b, _ := v.([]value)
			return mkstr(b)
		}
	}
	panic(unsupported{fmt.Sprintf("proto transcoding of a %s field %s into %s", wire, srcT, dstT)})
}

type protoToken struct {
	t types.Type
	v value
}

func registerProtoStubs(e *Engine) {
	marshal := func(fr *frame, args []value) value {
		m, ok := args[len(args)-1].(iface)
		if !ok || m.t == nil {
			return tuple{[]value(nil), iface{}}
		}
		if p, isPtr := m.v.(*value); isPtr && p == nil {
			return tuple{[]value(nil), iface{}}
		}
		tok := &opaque{kind: "proto", p: &protoToken{t: m.t, v: deepCopy(m.v, m.t)}}
		return tuple{[]value{tok}, iface{}}
	}
	e.reg("google.golang.org/protobuf/proto.Marshal", marshal)
	e.reg("google.golang.org/protobuf/proto.Unmarshal", func(fr *frame, args []value) value {
		b, _ := args[0].([]value)
		m := args[1].(iface)
		dst, ok := m.v.(*value)
		if !ok || dst == nil {
			panic(unsupported{"proto.Unmarshal into non-pointer"})
		}
		elemT := mustDeref(m.t)
		if len(b) == 0 {
			store(elemT, dst, zero(elemT))
			return iface{}
		}
		o, ok := b[0].(*opaque)
		if !ok || o.kind != "proto" || len(b) != 1 {
			panic(unsupported{"proto.Unmarshal of bytes that did not come from proto.Marshal"})
		}
		tok := o.p.(*protoToken)
		if !types.Identical(tok.t, m.t) {
			// bytes of another message type: the real decoder reads them field number by field
			// number (wire-compatible schemas decode "successfully" into something else).
			// Modelled by transcoding the fields whose numbers and wire types match.
			fr.ex.notes = append(fr.ex.notes, fmt.Sprintf("proto.Unmarshal of %s bytes into %s (transcoded by field number)", tok.t, m.t))
			src, ok := tok.v.(*value)
			if !ok || src == nil {
				store(elemT, dst, zero(elemT))
				return iface{}
			}
			store(elemT, dst, protoTranscode(*src, mustDeref(tok.t), elemT))
			return iface{}
		}
		cp := deepCopy(tok.v, tok.t).(*value)
		store(elemT, dst, *cp)
		return iface{}
	})
	e.reg("google.golang.org/protobuf/proto.Size", func(fr *frame, args []value) value { return 1 })
}
