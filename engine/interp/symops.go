package interp

// Instruction semantics over possibly-symbolic operands.

import (
	"fmt"
	"go/token"
	"go/types"
	"unicode/utf8"

	"golang.org/x/tools/go/ssa"
)

func checkDivZero(y value) {
	switch y := y.(type) {
	case int:
		if y == 0 {
			panic(rtPanic("integer divide by zero"))
		}
	case int8:
		if y == 0 {
			panic(rtPanic("integer divide by zero"))
		}
	case int16:
		if y == 0 {
			panic(rtPanic("integer divide by zero"))
		}
	case int32:
		if y == 0 {
			panic(rtPanic("integer divide by zero"))
		}
	case int64:
		if y == 0 {
			panic(rtPanic("integer divide by zero"))
		}
	case uint:
		if y == 0 {
			panic(rtPanic("integer divide by zero"))
		}
	case uint8:
		if y == 0 {
			panic(rtPanic("integer divide by zero"))
		}
	case uint16:
		if y == 0 {
			panic(rtPanic("integer divide by zero"))
		}
	case uint32:
		if y == 0 {
			panic(rtPanic("integer divide by zero"))
		}
	case uint64:
		if y == 0 {
			panic(rtPanic("integer divide by zero"))
		}
	case uintptr:
		if y == 0 {
			panic(rtPanic("integer divide by zero"))
		}
	}
}

func asInt64c(x value) int64 {
	switch x := x.(type) {
	case int:
		return int64(x)
	case int8:
		return int64(x)
	case int16:
		return int64(x)
	case int32:
		return int64(x)
	case int64:
		return x
	case uint:
		return int64(x)
	case uint8:
		return int64(x)
	case uint16:
		return int64(x)
	case uint32:
		return int64(x)
	case uint64:
		return int64(x)
	case uintptr:
		return int64(x)
	}
	panic(fmt.Sprintf("cannot convert %T to int64", x))
}

func asUint64(x value) uint64 {
	switch x := x.(type) {
	case uint:
		return uint64(x)
	case uint8:
		return uint64(x)
	case uint16:
		return uint64(x)
	case uint32:
		return uint64(x)
	case uint64:
		return x
	case uintptr:
		return uint64(x)
	}
	panic(fmt.Sprintf("cannot convert %T to uint64", x))
}

func asUnsigned(x value) (value, bool) {
	switch x := x.(type) {
	case int:
		return uint(x), x >= 0
	case int8:
		return uint8(x), x >= 0
	case int16:
		return uint16(x), x >= 0
	case int32:
		return uint32(x), x >= 0
	case int64:
		return uint64(x), x >= 0
	case uint, uint8, uint16, uint32, uint64, uintptr:
		return x, true
	}
	panic(fmt.Sprintf("cannot convert %T to unsigned", x))
}

// asInt64 returns a concrete integer; a symbolic one is concretised by
// enumerating its feasible values (bounded by Cfg.MaxConcretize).
func (ex *Exec) asInt64(x value) int64 {
	if s, ok := x.(sym); ok {
		return ex.concretize(s)
	}
	return asInt64c(x)
}

// concretize forks over the feasible values of s (model-guided).
func (ex *Exec) concretize(s sym) int64 {
	for n := 0; n < ex.eng.Cfg.MaxConcretize; n++ {
		// the candidate value is part of the decision vector: a replayed
		// prefix must see the same candidate, not one from a newer model
		var v uint64
		if ex.cursor < len(ex.prefix) {
			v = uint64(ex.prefix[ex.cursor])
			ex.cursor++
			ex.recordDecision(int(v))
			if ex.cursor == len(ex.prefix) {
				ex.modelValid = ex.model != nil
			}
		} else {
			var ok bool
			v, ok = ex.anyValue(s.t)
			if !ok {
				panic(pathEnd{"assume", "concretize: no value"})
			}
			ex.recordDecision(int(v))
		}
		c := BV(s.t.S, v)
		if ex.decide(Eq(s.t, c)) {
			if kindSigned(s.k) {
				return signExt(v, s.t.S)
			}
			return int64(v)
		}
	}
	panic(pathEnd{"budget", "concretization fan-out exceeded for " + s.t.String()})
}

// index checks 0 <= idx < n and returns a concrete index.
func (ex *Exec) index(idx value, n int) int {
	if s, ok := idx.(sym); ok {
		w := s.t.S
		var in *Term
		if kindSigned(s.k) {
			in = And(Bin("bvsle", BV(w, 0), s.t), Bin("bvslt", s.t, BV(w, uint64(n))))
		} else {
			in = Bin("bvult", s.t, BV(w, uint64(n)))
		}
		if !ex.decide(in) {
			panic(rtPanic(fmt.Sprintf("index out of range [symbolic] with length %d", n)))
		}
		for i := 0; i < n-1; i++ {
			if ex.decide(Eq(s.t, BV(w, uint64(i)))) {
				return i
			}
		}
		return n - 1
	}
	i := asInt64c(idx)
	if k, _ := valKind(idx); !kindSigned(k) && i < 0 {
		panic(rtPanic(fmt.Sprintf("index out of range [%d] with length %d", uint64(i), n)))
	}
	if i < 0 || i >= int64(n) {
		panic(rtPanic(fmt.Sprintf("index out of range [%d] with length %d", i, n)))
	}
	return int(i)
}

// bound concretises a slice bound in [0,max].
func (ex *Exec) bound(v value, max int, what string) int {
	if s, ok := v.(sym); ok {
		w := s.t.S
		var in *Term
		if kindSigned(s.k) {
			in = And(Bin("bvsle", BV(w, 0), s.t), Bin("bvsle", s.t, BV(w, uint64(max))))
		} else {
			in = Bin("bvule", s.t, BV(w, uint64(max)))
		}
		if !ex.decide(in) {
			panic(rtPanic("slice bounds out of range [symbolic " + what + "]"))
		}
		for i := 0; i < max; i++ {
			if ex.decide(Eq(s.t, BV(w, uint64(i)))) {
				return i
			}
		}
		return max
	}
	i := asInt64c(v)
	if k, _ := valKind(v); !kindSigned(k) && i < 0 {
		panic(rtPanic(fmt.Sprintf("slice bounds out of range [%s %d] with capacity %d", what, uint64(i), max)))
	}
	if i < 0 || i > int64(max) {
		panic(rtPanic(fmt.Sprintf("slice bounds out of range [%s %d] with capacity %d", what, i, max)))
	}
	return int(i)
}

func (ex *Exec) slice(x, lo, hi, max value) value {
	var Len, Cap int
	switch x := x.(type) {
	case string:
		Len, Cap = len(x), len(x)
	case sstring:
		Len, Cap = len(x.b), len(x.b)
	case []value:
		Len, Cap = len(x), cap(x)
	case *value:
		a := (*nilCheck(x)).(array)
		Len, Cap = len(a), cap(a)
	default:
		panic(fmt.Sprintf("slice: unexpected X type: %T", x))
	}
	m := Cap
	if max != nil {
		m = ex.bound(max, Cap, "max")
	}
	h := Len
	if hi != nil {
		limit := m
		if _, isStr := x.(string); isStr {
			limit = Len
		}
		if _, isStr := x.(sstring); isStr {
			limit = Len
		}
		h = ex.bound(hi, limit, "high")
	} else if max != nil && h > m {
		panic(rtPanic("slice bounds out of range"))
	}
	l := 0
	if lo != nil {
		l = ex.bound(lo, h, "low")
	}
	switch x := x.(type) {
	case string:
		return x[l:h]
	case sstring:
		return mkstr(x.b[l:h])
	case []value:
		return x[l:h:m]
	case *value:
		a := (*x).(array)
		return []value(a)[l:h:m]
	}
	panic("unreachable")
}

func (ex *Exec) lookup(instr *ssa.Lookup, x, idx value) value {
	m, ok := x.(*omap)
	if !ok {
		panic(unsupported{fmt.Sprintf("lookup in %T", x)})
	}
	var v value
	e := m.find(ex, idx)
	if e != nil {
		v = e.val
	} else {
		v = zero(instr.X.Type().Underlying().(*types.Map).Elem())
	}
	if instr.CommaOk {
		v = tuple{v, e != nil}
	}
	return v
}

func isStringish(v value) bool {
	switch v.(type) {
	case string, sstring:
		return true
	}
	return false
}

func (ex *Exec) binop(op token.Token, t types.Type, x, y value) value {
	if _, ok := x.(poison); ok {
		panic(unsupported{"operand is poisoned: " + x.(poison).why})
	}
	if _, ok := y.(poison); ok {
		panic(unsupported{"operand is poisoned: " + y.(poison).why})
	}
	switch op {
	case token.EQL:
		return ex.eqnil(t, x, y)
	case token.NEQ:
		r := ex.eqnil(t, x, y)
		if b, ok := r.(bool); ok {
			return !b
		}
		return mkval(Not(r.(sym).t), types.Bool)
	}
	_, xs := x.(sym)
	_, ys := y.(sym)
	if xs || ys {
		return ex.symBinop(op, x, y)
	}
	_, xss := x.(sstring)
	_, yss := y.(sstring)
	if xss || yss {
		a, b := strBytes(x), strBytes(y)
		switch op {
		case token.ADD:
			r := make([]value, 0, len(a)+len(b))
			r = append(r, a...)
			r = append(r, b...)
			return mkstr(r)
		case token.LSS:
			return mkval(bytesLtTerm(a, b), types.Bool)
		case token.GTR:
			return mkval(bytesLtTerm(b, a), types.Bool)
		case token.LEQ:
			return mkval(Not(bytesLtTerm(b, a)), types.Bool)
		case token.GEQ:
			return mkval(Not(bytesLtTerm(a, b)), types.Bool)
		}
		panic(unsupported{"string op " + op.String() + " on symbolic string"})
	}
	return binopConcrete(op, t, x, y)
}

func (ex *Exec) eqnil(t types.Type, x, y value) value {
	switch t.Underlying().(type) {
	case *types.Map:
		xm, _ := x.(*omap)
		ym, _ := y.(*omap)
		return (xm != nil) == (ym != nil)
	case *types.Signature:
		return funcIsNil(x) == funcIsNil(y)
	case *types.Slice:
		xs, ok1 := x.([]value)
		ys, ok2 := y.([]value)
		if !ok1 || !ok2 {
			panic(unsupported{fmt.Sprintf("slice nil comparison of %T and %T", x, y)})
		}
		return (xs != nil) == (ys != nil)
	case *types.Chan:
		xo, _ := x.(*opaque)
		yo, _ := y.(*opaque)
		return xo == yo
	}
	return mkval(eqTerm(x, y), types.Bool)
}

func funcIsNil(v value) bool {
	switch v := v.(type) {
	case *ssa.Function:
		return v == nil
	case *closure:
		return v == nil
	case *builtinFn:
		return v == nil
	case *ssa.Builtin:
		return v == nil
	}
	panic(unsupported{fmt.Sprintf("func nil check on %T", v)})
}

func (ex *Exec) symBinop(op token.Token, x, y value) value {
	k, ok := valKind(x)
	if !ok {
		panic(unsupported{fmt.Sprintf("symbolic binop %s on %T", op, x)})
	}
	if k == types.Bool {
		panic(unsupported{"symbolic bool binop " + op.String()})
	}
	tx, ty := termOf(x), termOf(y)
	w := tx.S
	signed := kindSigned(k)
	switch op {
	case token.SHL, token.SHR:
		yk, _ := valKind(y)
		if kindSigned(yk) {
			if ex.decide(Bin("bvslt", ty, BV(ty.S, 0))) {
				panic(rtPanic("negative shift amount"))
			}
		}
		// bring the count to the operand's width, saturating
		switch {
		case ty.S < w:
			ty = ZeroExt(w, ty)
		case ty.S > w:
			big := Not(Bin("bvult", ty, BV(ty.S, uint64(w))))
			ty = Ite(big, BV(w, uint64(w)), Extract(int(w)-1, 0, ty))
		}
		switch {
		case op == token.SHL:
			return mkval(Bin("bvshl", tx, ty), k)
		case signed:
			return mkval(Bin("bvashr", tx, ty), k)
		default:
			return mkval(Bin("bvlshr", tx, ty), k)
		}
	}
	if ty.S != w {
		panic(fmt.Sprintf("symBinop width mismatch %v %v", tx.S, ty.S))
	}
	switch op {
	case token.ADD:
		return mkval(Bin("bvadd", tx, ty), k)
	case token.SUB:
		return mkval(Bin("bvsub", tx, ty), k)
	case token.MUL:
		return mkval(Bin("bvmul", tx, ty), k)
	case token.QUO, token.REM:
		if ex.decide(Eq(ty, BV(w, 0))) {
			panic(rtPanic("integer divide by zero"))
		}
		var o string
		switch {
		case op == token.QUO && signed:
			o = "bvsdiv"
		case op == token.QUO:
			o = "bvudiv"
		case signed:
			o = "bvsrem"
		default:
			o = "bvurem"
		}
		return mkval(Bin(o, tx, ty), k)
	case token.AND:
		return mkval(Bin("bvand", tx, ty), k)
	case token.OR:
		return mkval(Bin("bvor", tx, ty), k)
	case token.XOR:
		return mkval(Bin("bvxor", tx, ty), k)
	case token.AND_NOT:
		return mkval(Bin("bvand", tx, Un("bvnot", ty)), k)
	case token.LSS:
		if signed {
			return mkval(Bin("bvslt", tx, ty), types.Bool)
		}
		return mkval(Bin("bvult", tx, ty), types.Bool)
	case token.LEQ:
		if signed {
			return mkval(Bin("bvsle", tx, ty), types.Bool)
		}
		return mkval(Bin("bvule", tx, ty), types.Bool)
	case token.GTR:
		if signed {
			return mkval(Bin("bvslt", ty, tx), types.Bool)
		}
		return mkval(Bin("bvult", ty, tx), types.Bool)
	case token.GEQ:
		if signed {
			return mkval(Bin("bvsle", ty, tx), types.Bool)
		}
		return mkval(Bin("bvule", ty, tx), types.Bool)
	}
	panic(unsupported{"symbolic binop " + op.String()})
}

func (ex *Exec) unop(instr *ssa.UnOp, x value) value {
	if p, ok := x.(poison); ok {
		panic(unsupported{"operand is poisoned: " + p.why})
	}
	switch instr.Op {
	case token.ARROW:
		return ex.chanRecv(instr, x)
	case token.MUL:
		p, ok := x.(*value)
		if !ok {
			panic(unsupported{fmt.Sprintf("deref of %T (%s)", x, instr.X.Type())})
		}
		return load(mustDeref(instr.X.Type()), nilCheck(p))
	case token.NOT:
		if s, ok := x.(sym); ok {
			return mkval(Not(s.t), types.Bool)
		}
		return !x.(bool)
	case token.SUB:
		if s, ok := x.(sym); ok {
			return mkval(Un("bvneg", s.t), s.k)
		}
	case token.XOR:
		if s, ok := x.(sym); ok {
			return mkval(Un("bvnot", s.t), s.k)
		}
	}
	return unopConcrete(instr, x)
}

func unopConcrete(instr *ssa.UnOp, x value) value {
	switch instr.Op {
	case token.SUB:
		switch x := x.(type) {
		case int:
			return -x
		case int8:
			return -x
		case int16:
			return -x
		case int32:
			return -x
		case int64:
			return -x
		case uint:
			return -x
		case uint8:
			return -x
		case uint16:
			return -x
		case uint32:
			return -x
		case uint64:
			return -x
		case uintptr:
			return -x
		case float32:
			return -x
		case float64:
			return -x
		case complex64:
			return -x
		case complex128:
			return -x
		}
	case token.XOR:
		switch x := x.(type) {
		case int:
			return ^x
		case int8:
			return ^x
		case int16:
			return ^x
		case int32:
			return ^x
		case int64:
			return ^x
		case uint:
			return ^x
		case uint8:
			return ^x
		case uint16:
			return ^x
		case uint32:
			return ^x
		case uint64:
			return ^x
		case uintptr:
			return ^x
		}
	}
	panic(fmt.Sprintf("invalid unary op %s %T", instr.Op, x))
}

func (ex *Exec) chanRecv(instr *ssa.UnOp, x value) value {
	o, ok := x.(*opaque)
	if !ok || o == nil || o.kind != "chan" {
		panic(unsupported{"channel receive"})
	}
	cs := o.p.(*chanState)
	var v value
	okv := false
	if len(cs.buf) > 0 {
		v = cs.buf[0]
		cs.buf = cs.buf[1:]
		okv = true
	} else if cs.closed {
		v = zero(instr.X.Type().Underlying().(*types.Chan).Elem())
	} else {
		panic(unsupported{"receive on empty open channel (would block)"})
	}
	if instr.CommaOk {
		return tuple{v, okv}
	}
	return v
}

func (ex *Exec) conv(tDst, tSrc types.Type, x value) value {
	if p, ok := x.(poison); ok {
		panic(unsupported{"operand is poisoned: " + p.why})
	}
	utSrc := tSrc.Underlying()
	utDst := tDst.Underlying()
	switch x := x.(type) {
	case sym:
		db, ok := utDst.(*types.Basic)
		if !ok {
			panic(unsupported{fmt.Sprintf("conversion of symbolic %s to %s", tSrc, tDst)})
		}
		if db.Info()&types.IsInteger == 0 {
			panic(unsupported{fmt.Sprintf("conversion of symbolic integer to %s", tDst)})
		}
		dk := db.Kind()
		dw := kindWidth(dk)
		sw := x.t.S
		var t *Term
		switch {
		case dw == sw:
			t = x.t
		case dw < sw:
			t = Extract(int(dw)-1, 0, x.t)
		case kindSigned(x.k):
			t = SignExt(dw, x.t)
		default:
			t = ZeroExt(dw, x.t)
		}
		return mkval(t, dk)
	case sstring:
		switch d := utDst.(type) {
		case *types.Basic:
			if d.Kind() == types.String {
				return x
			}
		case *types.Slice:
			if basicKind(d.Elem()) == types.Byte {
				r := make([]value, len(x.b))
				copy(r, x.b)
				return r
			}
		}
		panic(unsupported{fmt.Sprintf("conversion of symbolic string to %s", tDst)})
	case []value:
		if sl, ok := utSrc.(*types.Slice); ok {
			if b, ok := sl.Elem().Underlying().(*types.Basic); ok && b.Kind() == types.Byte {
				if _, ok := utDst.(*types.Basic); ok {
					return mkstr(x)
				}
			}
		}
	}
	return convConcrete(tDst, tSrc, x)
}

func typeAssert(ex *Exec, instr *ssa.TypeAssert, itf iface) value {
	var v value
	err := ""
	if itf.t == nil {
		err = fmt.Sprintf("interface conversion: interface is nil, not %s", instr.AssertedType)
	} else if idst, ok := instr.AssertedType.Underlying().(*types.Interface); ok {
		v = itf
		if et, ok := engTypes[itf.t]; ok {
			for i := 0; i < idst.NumMethods(); i++ {
				n := idst.Method(i).Name()
				if et.methods[n] == nil {
					err = "interface conversion: " + itf.t.String() + " is not " + instr.AssertedType.String() + ": missing method " + n
				}
			}
		} else {
			err = checkInterface(idst, itf)
		}
	} else if types.Identical(itf.t, instr.AssertedType) {
		v = itf.v
	} else {
		err = fmt.Sprintf("interface conversion: interface is %s, not %s", itf.t, instr.AssertedType)
	}
	if err != "" {
		if !instr.CommaOk {
			panic(rtPanic(err))
		}
		return tuple{zero(instr.AssertedType), false}
	}
	if instr.CommaOk {
		return tuple{v, true}
	}
	return v
}

func (ex *Exec) callBuiltin(caller *frame, callpos token.Pos, fn *ssa.Builtin, args []value) value {
	switch fn.Name() {
	case "append":
		if len(args) == 1 {
			return args[0]
		}
		if isStringish(args[1]) {
			arg0 := args[0].([]value)
			return append(arg0, strBytes(args[1])...)
		}
		return append(args[0].([]value), args[1].([]value)...)

	case "copy":
		src := args[1]
		if isStringish(src) {
			src = strBytes(src)
		}
		return copy(args[0].([]value), src.([]value))

	case "close":
		o, ok := args[0].(*opaque)
		if !ok || o == nil {
			panic(unsupported{"close of non-engine channel"})
		}
		o.p.(*chanState).closed = true
		return nil

	case "delete":
		m, ok := args[0].(*omap)
		if !ok {
			panic(unsupported{fmt.Sprintf("delete on %T", args[0])})
		}
		if m != nil {
			m.delete(ex, args[1])
		}
		return nil

	case "clear":
		switch x := args[0].(type) {
		case *omap:
			if x != nil {
				x.entries = nil
				x.idx = map[string]*oentry{}
				x.nsym = 0
			}
		case []value:
			tElt := fn.Type().(*types.Signature).Params().At(0).Type().Underlying().(*types.Slice).Elem()
			for i := range x {
				x[i] = zero(tElt)
			}
		}
		return nil

	case "print", "println":
		return nil

	case "len":
		switch x := args[0].(type) {
		case string:
			return len(x)
		case sstring:
			return len(x.b)
		case array:
			return len(x)
		case *value:
			return len((*x).(array))
		case []value:
			return len(x)
		case *omap:
			return x.len()
		case *opaque:
			if x == nil {
				return 0
			}
			return len(x.p.(*chanState).buf)
		default:
			panic(unsupported{fmt.Sprintf("len: illegal operand: %T", x)})
		}

	case "cap":
		switch x := args[0].(type) {
		case array:
			return cap(x)
		case *value:
			return cap((*x).(array))
		case []value:
			return cap(x)
		case *opaque:
			if x == nil {
				return 0
			}
			return x.p.(*chanState).cap
		default:
			panic(unsupported{fmt.Sprintf("cap: illegal operand: %T", x)})
		}

	case "min":
		return foldLeft(ex.min, args)
	case "max":
		return foldLeft(ex.max, args)

	case "panic":
		panic(targetPanic{args[0]})

	case "recover":
		return doRecover(caller)

	case "ssa:wrapnilchk":
		recv := args[0]
		if recv.(*value) == nil {
			panic(rtPanic(fmt.Sprintf("value method (%s).%s called using nil *%s pointer", args[1], args[2], args[1])))
		}
		return recv

	case "ssa:deferstack":
		return &caller.defers
	}
	panic(unsupported{"built-in " + fn.Name()})
}

func (ex *Exec) min(x, y value) value {
	if isSym(x) || isSym(y) {
		k, _ := valKind(x)
		lt := ex.symBinop(token.LSS, y, x)
		return mkval(Ite(termOf(lt), termOf(y), termOf(x)), k)
	}
	return min(x, y)
}

func (ex *Exec) max(x, y value) value {
	if isSym(x) || isSym(y) {
		k, _ := valKind(x)
		gt := ex.symBinop(token.GTR, y, x)
		return mkval(Ite(termOf(gt), termOf(y), termOf(x)), k)
	}
	return max(x, y)
}

func rangeIter(x value, t types.Type) iter {
	switch x := x.(type) {
	case *omap:
		if x == nil {
			return &omapIter{}
		}
		snap := make([]*oentry, len(x.entries))
		copy(snap, x.entries)
		return &omapIter{snap: snap, m: x}
	case string, sstring:
		return &stringIter{b: strBytes(x)}
	}
	panic(unsupported{fmt.Sprintf("cannot range over %T", x)})
}

func decodeRune(b []byte) (rune, int) {
	r, n := utf8.DecodeRune(b)
	if n == 0 {
		n = 1
	}
	return r, n
}
