package interp

// github.com/RoaringBitmap/roaring/roaring64.Bitmap as a mutable cell holding
// a bit-vector of width Cfg.BitmapWidth (default 8): bit i set <=> i in the set.
// Receiver mutation and aliasing are modelled; values >= width are outside.

import (
	"fmt"
	"go/types"
)

type roaringCell struct{ t *Term }

const roaringW = 8

func newRoaring(t *Term) value {
	v := value(&opaque{kind: "roaring", p: &roaringCell{t: t}})
	return &v
}

func roaringOf(v value) *roaringCell {
	p, ok := v.(*value)
	if !ok {
		panic(unsupported{fmt.Sprintf("roaring receiver %T", v)})
	}
	if p == nil {
		panic(rtPanic("invalid memory address or nil pointer dereference (nil *roaring64.Bitmap)"))
	}
	o, ok := (*p).(*opaque)
	if !ok || o.kind != "roaring" {
		panic(unsupported{"roaring bitmap not created through the engine stub"})
	}
	return o.p.(*roaringCell)
}

// bitOf returns the 8-bit mask 1<<x for a 64-bit position term, and the in-range condition.
func bitOf(x *Term) (*Term, *Term) {
	in := Bin("bvult", x, BV(64, roaringW))
	sh := Extract(roaringW-1, 0, x)
	return Bin("bvshl", BV(roaringW, 1), sh), in
}

func registerRoaringStubs(e *Engine) {
	pk := "github.com/RoaringBitmap/roaring/roaring64."
	mt := "(*github.com/RoaringBitmap/roaring/roaring64.Bitmap)."
	e.reg(pk+"New", func(fr *frame, args []value) value { return newRoaring(BV(roaringW, 0)) })
	e.reg(pk+"NewBitmap", func(fr *frame, args []value) value { return newRoaring(BV(roaringW, 0)) })
	e.reg(mt+"Clone", func(fr *frame, args []value) value { return newRoaring(roaringOf(args[0]).t) })
	e.reg(mt+"And", func(fr *frame, args []value) value {
		c := roaringOf(args[0])
		c.t = Bin("bvand", c.t, roaringOf(args[1]).t)
		return nil
	})
	e.reg(mt+"Or", func(fr *frame, args []value) value {
		c := roaringOf(args[0])
		c.t = Bin("bvor", c.t, roaringOf(args[1]).t)
		return nil
	})
	e.reg(mt+"IsEmpty", func(fr *frame, args []value) value {
		return mkval(Eq(roaringOf(args[0]).t, BV(roaringW, 0)), types.Bool)
	})
	e.reg(mt+"Contains", func(fr *frame, args []value) value {
		m, in := bitOf(termOf(args[1]))
		return mkval(And(in, Not(Eq(Bin("bvand", roaringOf(args[0]).t, m), BV(roaringW, 0)))), types.Bool)
	})
	e.reg(mt+"Add", func(fr *frame, args []value) value {
		c := roaringOf(args[0])
		m, in := bitOf(termOf(args[1]))
		if !fr.ex.decide(in) {
			panic(pathEnd{"assume", "roaring value outside the modelled width"})
		}
		c.t = Bin("bvor", c.t, m)
		return nil
	})
	e.reg(mt+"GetCardinality", func(fr *frame, args []value) value {
		t := roaringOf(args[0]).t
		sum := BV(64, 0)
		for i := 0; i < roaringW; i++ {
			sum = Bin("bvadd", sum, ZeroExt(64, Extract(i, i, t)))
		}
		return mkval(sum, types.Uint64)
	})
	e.reg(mt+"Minimum", func(fr *frame, args []value) value {
		t := roaringOf(args[0]).t
		res := BV(64, 0)
		for i := roaringW - 1; i >= 0; i-- {
			res = Ite(Eq(Extract(i, i, t), BV(1, 1)), BV(64, uint64(i)), res)
		}
		return mkval(res, types.Uint64)
	})
	e.reg(mt+"Maximum", func(fr *frame, args []value) value {
		t := roaringOf(args[0]).t
		res := BV(64, 0)
		for i := 0; i < roaringW; i++ {
			res = Ite(Eq(Extract(i, i, t), BV(1, 1)), BV(64, uint64(i)), res)
		}
		return mkval(res, types.Uint64)
	})
	e.reg(mt+"Flip", func(fr *frame, args []value) value {
		c := roaringOf(args[0])
		lo, hi := termOf(args[1]), termOf(args[2])
		mask := BV(roaringW, 0)
		for i := 0; i < roaringW; i++ {
			in := And(Bin("bvule", lo, BV(64, uint64(i))), Bin("bvult", BV(64, uint64(i)), hi))
			mask = Bin("bvor", mask, Ite(in, BV(roaringW, 1<<uint(i)), BV(roaringW, 0)))
		}
		c.t = Bin("bvxor", c.t, mask)
		return nil
	})
	rangeMask := func(lo, hi *Term) *Term {
		mask := BV(roaringW, 0)
		for i := 0; i < roaringW; i++ {
			in := And(Bin("bvule", lo, BV(64, uint64(i))), Bin("bvult", BV(64, uint64(i)), hi))
			mask = Bin("bvor", mask, Ite(in, BV(roaringW, 1<<uint(i)), BV(roaringW, 0)))
		}
		return mask
	}
	e.reg(mt+"RemoveRange", func(fr *frame, args []value) value {
		c := roaringOf(args[0])
		c.t = Bin("bvand", c.t, Un("bvnot", rangeMask(termOf(args[1]), termOf(args[2]))))
		return nil
	})
	e.reg(mt+"Remove", func(fr *frame, args []value) value {
		c := roaringOf(args[0])
		m, in := bitOf(termOf(args[1]))
		c.t = Ite(in, Bin("bvand", c.t, Un("bvnot", m)), c.t)
		return nil
	})
	// serialisation of the model: one byte holding the bit-vector (the roaring wire
	// format itself is the library's business, outside every claim)
	e.reg(mt+"ToBytes", func(fr *frame, args []value) value {
		return tuple{[]value{mkval(roaringOf(args[0]).t, types.Uint8)}, iface{}}
	})
	e.reg(mt+"FromUnsafeBytes", func(fr *frame, args []value) value {
		b, ok := args[1].([]value)
		if !ok || len(b) != roaringW/8 {
			return tuple{int64(0), mkError("roaring model: unexpected serialised length", nil)}
		}
		roaringOf(args[0]).t = termOf(b[0])
		return tuple{int64(1), iface{}}
	})
	// harness helpers (package zz_verifsym)
	e.reg(e.symPkg+".BitmapFromBits", func(fr *frame, args []value) value { return newRoaring(termOf(args[0])) })
	e.reg(e.symPkg+".BitmapBits", func(fr *frame, args []value) value {
		return mkval(roaringOf(args[0]).t, types.Uint8)
	})
}
