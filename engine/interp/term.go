package interp

// SMT term DAG: bit-vector and Bool terms with constant folding, an evaluator
// (used for model-guided branching and for cross-checking against native runs)
// and an SMT-LIB2 printer.

import (
	"fmt"
	"sort"
	"strings"
)

// Sort: 0 = Bool, w>0 = (_ BitVec w).
type Sort int

const BoolSort Sort = 0

type Term struct {
	Op   string // SMT-LIB operator; "var", "const", "extract", "zero_extend", "sign_extend", "uf"
	S    Sort
	Args []*Term
	C    uint64 // constant value (Bool: 0/1)
	Name string // variable or UF name
	I, J int    // extract hi, lo / extension amount
	id   int
	str  string // memoised structural key (only for small terms)
}

func (s Sort) String() string {
	if s == BoolSort {
		return "Bool"
	}
	return fmt.Sprintf("(_ BitVec %d)", int(s))
}

func mask(w Sort) uint64 {
	if w >= 64 {
		return ^uint64(0)
	}
	return (uint64(1) << uint(w)) - 1
}

var (
	TrueT  = &Term{Op: "const", S: BoolSort, C: 1}
	FalseT = &Term{Op: "const", S: BoolSort, C: 0}
)

func BoolT(b bool) *Term {
	if b {
		return TrueT
	}
	return FalseT
}

func BV(w Sort, v uint64) *Term { return &Term{Op: "const", S: w, C: v & mask(w)} }

func Var(name string, s Sort) *Term { return &Term{Op: "var", S: s, Name: name} }

func (t *Term) IsConst() bool { return t.Op == "const" }
func (t *Term) IsTrue() bool  { return t.Op == "const" && t.S == BoolSort && t.C == 1 }
func (t *Term) IsFalse() bool { return t.Op == "const" && t.S == BoolSort && t.C == 0 }

func signExt(v uint64, w Sort) int64 {
	if w >= 64 {
		return int64(v)
	}
	sh := 64 - uint(w)
	return int64(v<<sh) >> sh
}

// evalOp computes op over constant arguments; ok=false if op is not foldable.
func evalOp(op string, s Sort, as Sort, a []uint64, t *Term) (uint64, bool) {
	m := mask(s)
	switch op {
	case "bvadd":
		return (a[0] + a[1]) & m, true
	case "bvsub":
		return (a[0] - a[1]) & m, true
	case "bvmul":
		return (a[0] * a[1]) & m, true
	case "bvudiv":
		if a[1] == 0 {
			return m, true
		}
		return a[0] / a[1], true
	case "bvurem":
		if a[1] == 0 {
			return a[0], true
		}
		return a[0] % a[1], true
	case "bvsdiv":
		x, y := signExt(a[0], s), signExt(a[1], s)
		if y == 0 {
			if x < 0 {
				return 1, true
			}
			return m, true
		}
		if y == -1 {
			return uint64(-x) & m, true
		}
		return uint64(x/y) & m, true
	case "bvsrem":
		x, y := signExt(a[0], s), signExt(a[1], s)
		if y == 0 {
			return a[0], true
		}
		if y == -1 {
			return 0, true
		}
		return uint64(x%y) & m, true
	case "bvand":
		return a[0] & a[1], true
	case "bvor":
		return a[0] | a[1], true
	case "bvxor":
		return a[0] ^ a[1], true
	case "bvshl":
		if a[1] >= uint64(s) {
			return 0, true
		}
		return (a[0] << a[1]) & m, true
	case "bvlshr":
		if a[1] >= uint64(s) {
			return 0, true
		}
		return a[0] >> a[1], true
	case "bvashr":
		x := signExt(a[0], s)
		sh := a[1]
		if sh >= uint64(s) {
			sh = uint64(s) - 1
		}
		return uint64(x>>sh) & m, true
	case "bvneg":
		return (-a[0]) & m, true
	case "bvnot":
		return (^a[0]) & m, true
	case "=":
		return b2u(a[0] == a[1]), true
	case "bvult":
		return b2u(a[0] < a[1]), true
	case "bvule":
		return b2u(a[0] <= a[1]), true
	case "bvslt":
		return b2u(signExt(a[0], as) < signExt(a[1], as)), true
	case "bvsle":
		return b2u(signExt(a[0], as) <= signExt(a[1], as)), true
	case "not":
		return 1 - a[0], true
	case "and":
		for _, x := range a {
			if x == 0 {
				return 0, true
			}
		}
		return 1, true
	case "or":
		for _, x := range a {
			if x == 1 {
				return 1, true
			}
		}
		return 0, true
	case "ite":
		if a[0] == 1 {
			return a[1], true
		}
		return a[2], true
	case "extract":
		return (a[0] >> uint(t.J)) & mask(Sort(t.I-t.J+1)), true
	case "zero_extend":
		return a[0], true
	case "sign_extend":
		return uint64(signExt(a[0], as)) & m, true
	case "concat":
		// a[0] high, a[1] low; low width = s - as
		return ((a[0] << uint(int(s)-int(as))) | a[1]) & m, true
	}
	return 0, false
}

func b2u(b bool) uint64 {
	if b {
		return 1
	}
	return 0
}

func mk(op string, s Sort, args ...*Term) *Term {
	t := &Term{Op: op, S: s, Args: args}
	return fold(t)
}

func fold(t *Term) *Term {
	allc := true
	for _, a := range t.Args {
		if !a.IsConst() {
			allc = false
			break
		}
	}
	if allc && len(t.Args) > 0 && t.Op != "uf" {
		vals := make([]uint64, len(t.Args))
		for i, a := range t.Args {
			vals[i] = a.C
		}
		as := t.Args[0].S
		if t.Op == "concat" {
			as = t.Args[0].S
		}
		if v, ok := evalOp(t.Op, t.S, as, vals, t); ok {
			if t.S == BoolSort {
				return BoolT(v == 1)
			}
			return BV(t.S, v)
		}
	}
	return t
}

// ---- constructors with light simplification ----

func Not(a *Term) *Term {
	if a.IsConst() {
		return BoolT(a.C == 0)
	}
	if a.Op == "not" {
		return a.Args[0]
	}
	return &Term{Op: "not", S: BoolSort, Args: []*Term{a}}
}

func And(as ...*Term) *Term {
	var out []*Term
	for _, a := range as {
		if a.IsFalse() {
			return FalseT
		}
		if a.IsTrue() {
			continue
		}
		if a.Op == "and" {
			out = append(out, a.Args...)
		} else {
			out = append(out, a)
		}
	}
	switch len(out) {
	case 0:
		return TrueT
	case 1:
		return out[0]
	}
	return &Term{Op: "and", S: BoolSort, Args: out}
}

func Or(as ...*Term) *Term {
	var out []*Term
	for _, a := range as {
		if a.IsTrue() {
			return TrueT
		}
		if a.IsFalse() {
			continue
		}
		if a.Op == "or" {
			out = append(out, a.Args...)
		} else {
			out = append(out, a)
		}
	}
	switch len(out) {
	case 0:
		return FalseT
	case 1:
		return out[0]
	}
	return &Term{Op: "or", S: BoolSort, Args: out}
}

func Implies(a, b *Term) *Term { return Or(Not(a), b) }

func Ite(c, a, b *Term) *Term {
	if c.IsConst() {
		if c.C == 1 {
			return a
		}
		return b
	}
	if a == b {
		return a
	}
	if a.IsConst() && b.IsConst() && a.S == b.S && a.C == b.C {
		return a
	}
	if a.S == BoolSort {
		if a.IsTrue() && b.IsFalse() {
			return c
		}
		if a.IsFalse() && b.IsTrue() {
			return Not(c)
		}
		if a.IsTrue() {
			return Or(c, b)
		}
		if a.IsFalse() {
			return And(Not(c), b)
		}
		if b.IsTrue() {
			return Or(Not(c), a)
		}
		if b.IsFalse() {
			return And(c, a)
		}
	}
	return &Term{Op: "ite", S: a.S, Args: []*Term{c, a, b}}
}

func Eq(a, b *Term) *Term {
	if a == b {
		return TrueT
	}
	if a.S != b.S {
		panic(fmt.Sprintf("Eq sort mismatch %v %v", a.S, b.S))
	}
	if a.IsConst() && b.IsConst() {
		return BoolT(a.C == b.C)
	}
	if a.S == BoolSort {
		if a.IsConst() {
			a, b = b, a
		}
		if b.IsTrue() {
			return a
		}
		if b.IsFalse() {
			return Not(a)
		}
	}
	// (ite tree of constants) == k
	if b.IsConst() && isConstTree(a) {
		return mapTree(a, func(l *Term) *Term { return BoolT(l.C == b.C) })
	}
	if a.IsConst() && isConstTree(b) {
		return mapTree(b, func(l *Term) *Term { return BoolT(l.C == a.C) })
	}
	if a.key() != "" && a.key() == b.key() {
		return TrueT
	}
	return &Term{Op: "=", S: BoolSort, Args: []*Term{a, b}}
}

// constTree reports whether t is an ite tree whose leaves are all constants
// (at most limit nodes).
func constTree(t *Term, limit *int) bool {
	*limit--
	if *limit < 0 {
		return false
	}
	if t.IsConst() {
		return true
	}
	if t.Op == "ite" {
		return constTree(t.Args[1], limit) && constTree(t.Args[2], limit)
	}
	return false
}

// mapTree applies f to the constant leaves of an ite tree.
func mapTree(t *Term, f func(*Term) *Term) *Term {
	if t.IsConst() {
		return f(t)
	}
	return Ite(t.Args[0], mapTree(t.Args[1], f), mapTree(t.Args[2], f))
}

func isConstTree(t *Term) bool {
	if t.Op != "ite" {
		return false
	}
	n := 200
	return constTree(t, &n)
}

func Bin(op string, a, b *Term) *Term {
	if a.S != b.S {
		panic(fmt.Sprintf("Bin %s sort mismatch %v %v", op, a.S, b.S))
	}
	// arithmetic on a small ite tree of constants is pushed into the leaves
	if b.IsConst() && isConstTree(a) {
		return mapTree(a, func(l *Term) *Term { return Bin(op, l, b) })
	}
	if a.IsConst() && isConstTree(b) {
		return mapTree(b, func(l *Term) *Term { return Bin(op, a, l) })
	}
	s := a.S
	switch op {
	case "bvult", "bvule", "bvslt", "bvsle":
		s = BoolSort
		if a == b || (a.key() != "" && a.key() == b.key()) {
			return BoolT(op == "bvule" || op == "bvsle")
		}
	case "bvadd":
		if a.IsConst() && a.C == 0 {
			return b
		}
		if b.IsConst() && b.C == 0 {
			return a
		}
	case "bvsub":
		if b.IsConst() && b.C == 0 {
			return a
		}
	case "bvmul":
		if a.IsConst() && a.C == 1 {
			return b
		}
		if b.IsConst() && b.C == 1 {
			return a
		}
		if (a.IsConst() && a.C == 0) || (b.IsConst() && b.C == 0) {
			return BV(s, 0)
		}
	case "bvand":
		if (a.IsConst() && a.C == 0) || (b.IsConst() && b.C == 0) {
			return BV(s, 0)
		}
		if a.IsConst() && a.C == mask(s) {
			return b
		}
		if b.IsConst() && b.C == mask(s) {
			return a
		}
	case "bvor", "bvxor":
		if a.IsConst() && a.C == 0 {
			return b
		}
		if b.IsConst() && b.C == 0 {
			return a
		}
	case "bvshl", "bvlshr", "bvashr":
		if b.IsConst() && b.C == 0 {
			return a
		}
	}
	return mk(op, s, a, b)
}

func Un(op string, a *Term) *Term { return mk(op, a.S, a) }

func Extract(hi, lo int, a *Term) *Term {
	if lo == 0 && hi == int(a.S)-1 {
		return a
	}
	if isConstTree(a) {
		return mapTree(a, func(l *Term) *Term { return Extract(hi, lo, l) })
	}
	if a.Op == "zero_extend" && hi < int(a.Args[0].S) {
		return Extract(hi, lo, a.Args[0])
	}
	if a.Op == "sign_extend" && hi < int(a.Args[0].S) {
		return Extract(hi, lo, a.Args[0])
	}
	t := &Term{Op: "extract", S: Sort(hi - lo + 1), Args: []*Term{a}, I: hi, J: lo}
	return fold(t)
}

func ZeroExt(to Sort, a *Term) *Term {
	if to == a.S {
		return a
	}
	if isConstTree(a) {
		return mapTree(a, func(l *Term) *Term { return ZeroExt(to, l) })
	}
	t := &Term{Op: "zero_extend", S: to, Args: []*Term{a}, I: int(to - a.S)}
	return fold(t)
}

func SignExt(to Sort, a *Term) *Term {
	if to == a.S {
		return a
	}
	if isConstTree(a) {
		return mapTree(a, func(l *Term) *Term { return SignExt(to, l) })
	}
	t := &Term{Op: "sign_extend", S: to, Args: []*Term{a}, I: int(to - a.S)}
	return fold(t)
}

func Concat(hi, lo *Term) *Term {
	t := &Term{Op: "concat", S: hi.S + lo.S, Args: []*Term{hi, lo}}
	return fold(t)
}

// UF applies an uninterpreted function (name carries its signature identity).
func UF(name string, s Sort, args ...*Term) *Term {
	return &Term{Op: "uf", S: s, Name: name, Args: args}
}

// key returns a structural key for small terms ("" for big ones).
func (t *Term) key() string {
	if t.str != "" {
		return t.str
	}
	switch t.Op {
	case "const":
		t.str = fmt.Sprintf("c%d:%d", t.S, t.C)
	case "var":
		t.str = "v:" + t.Name
	default:
		var sb strings.Builder
		sb.WriteString(t.Op)
		if t.Op == "extract" || t.Op == "zero_extend" || t.Op == "sign_extend" {
			fmt.Fprintf(&sb, "[%d,%d]", t.I, t.J)
		}
		if t.Op == "uf" {
			sb.WriteString(t.Name)
		}
		sb.WriteByte('(')
		for _, a := range t.Args {
			k := a.key()
			if k == "" || sb.Len() > 400 {
				return ""
			}
			sb.WriteString(k)
			sb.WriteByte(',')
		}
		sb.WriteByte(')')
		t.str = sb.String()
	}
	return t.str
}

// ---- evaluation under a model ----

type Model map[string]uint64

type evaluator struct {
	m    Model
	memo map[*Term]uint64
	ok   bool
}

// Eval evaluates t under m (missing variables read as 0). ok=false when t
// contains an uninterpreted function.
func Eval(t *Term, m Model) (uint64, bool) {
	e := &evaluator{m: m, memo: map[*Term]uint64{}, ok: true}
	v := e.eval(t)
	return v, e.ok
}

func (e *evaluator) eval(t *Term) uint64 {
	switch t.Op {
	case "const":
		return t.C
	case "var":
		return e.m[t.Name] & mask64(t.S)
	}
	if v, ok := e.memo[t]; ok {
		return v
	}
	var v uint64
	switch t.Op {
	case "uf":
		e.ok = false
	case "ite":
		if e.eval(t.Args[0]) == 1 {
			v = e.eval(t.Args[1])
		} else {
			v = e.eval(t.Args[2])
		}
	case "and":
		v = 1
		for _, a := range t.Args {
			if e.eval(a) == 0 {
				v = 0
				break
			}
		}
	case "or":
		v = 0
		for _, a := range t.Args {
			if e.eval(a) == 1 {
				v = 1
				break
			}
		}
	default:
		vals := make([]uint64, len(t.Args))
		for i, a := range t.Args {
			vals[i] = e.eval(a)
		}
		var ok bool
		v, ok = evalOp(t.Op, t.S, t.Args[0].S, vals, t)
		if !ok {
			panic("eval: unknown op " + t.Op)
		}
	}
	e.memo[t] = v
	return v
}

func mask64(s Sort) uint64 {
	if s == BoolSort {
		return 1
	}
	return mask(s)
}

// ---- SMT-LIB printing ----

type printer struct {
	sb    strings.Builder
	ids   map[*Term]string
	structural map[string]string
	vars  map[string]Sort
	ufs   map[string]string
	n     int
	defs  []string
	order []string
}

func bvLit(w Sort, v uint64) string {
	if w%4 == 0 {
		return fmt.Sprintf("#x%0*x", int(w)/4, v)
	}
	return fmt.Sprintf("(_ bv%d %d)", v, int(w))
}

func quote(name string) string { return "|" + name + "|" }

func (p *printer) ref(t *Term) string {
	switch t.Op {
	case "const":
		if t.S == BoolSort {
			if t.C == 1 {
				return "true"
			}
			return "false"
		}
		return bvLit(t.S, t.C)
	case "var":
		if _, ok := p.vars[t.Name]; !ok {
			p.vars[t.Name] = t.S
			p.order = append(p.order, t.Name)
		}
		return quote(t.Name)
	}
	if id, ok := p.ids[t]; ok {
		return id
	}
	args := make([]string, len(t.Args))
	for i, a := range t.Args {
		args[i] = p.ref(a)
	}
	skey := fmt.Sprintf("%s|%d|%d|%s|%s", t.Op, t.I, t.J, t.Name, strings.Join(args, " "))
	if id, ok := p.structural[skey]; ok {
		p.ids[t] = id
		return id
	}
	defer func() { p.structural[skey] = p.ids[t] }()
	var expr string
	switch t.Op {
	case "extract":
		expr = fmt.Sprintf("((_ extract %d %d) %s)", t.I, t.J, args[0])
	case "zero_extend", "sign_extend":
		expr = fmt.Sprintf("((_ %s %d) %s)", t.Op, t.I, args[0])
	case "uf":
		sig := "("
		for i, a := range t.Args {
			if i > 0 {
				sig += " "
			}
			sig += a.S.String()
		}
		sig += ") " + t.S.String()
		p.ufs[t.Name] = sig
		if len(args) == 0 {
			expr = quote(t.Name)
		} else {
			expr = "(" + quote(t.Name) + " " + strings.Join(args, " ") + ")"
		}
	default:
		expr = "(" + t.Op + " " + strings.Join(args, " ") + ")"
	}
	p.n++
	id := fmt.Sprintf("t!%d", p.n)
	p.ids[t] = id
	p.defs = append(p.defs, fmt.Sprintf("(define-fun %s () %s %s)", id, t.S, expr))
	return id
}

// Script renders a self-contained push/pop query asserting all of asserts.
func Script(asserts []*Term, getModel bool) (string, []string) {
	p := &printer{ids: map[*Term]string{}, vars: map[string]Sort{}, ufs: map[string]string{}, structural: map[string]string{}}
	var refs []string
	for _, a := range asserts {
		refs = append(refs, p.ref(a))
	}
	var sb strings.Builder
	sb.WriteString("(push 1)\n")
	for _, name := range p.order {
		fmt.Fprintf(&sb, "(declare-fun %s () %s)\n", quote(name), p.vars[name])
	}
	ufn := make([]string, 0, len(p.ufs))
	for n := range p.ufs {
		ufn = append(ufn, n)
	}
	sort.Strings(ufn)
	for _, n := range ufn {
		fmt.Fprintf(&sb, "(declare-fun %s %s)\n", quote(n), p.ufs[n])
	}
	for _, d := range p.defs {
		sb.WriteString(d)
		sb.WriteByte('\n')
	}
	for _, r := range refs {
		fmt.Fprintf(&sb, "(assert %s)\n", r)
	}
	sb.WriteString("(check-sat)\n")
	return sb.String(), p.order
}

func (t *Term) String() string {
	switch t.Op {
	case "const":
		if t.S == BoolSort {
			return fmt.Sprint(t.C == 1)
		}
		return fmt.Sprintf("%d", t.C)
	case "var":
		return t.Name
	}
	var parts []string
	for _, a := range t.Args {
		parts = append(parts, a.String())
	}
	extra := ""
	if t.Op == "extract" {
		extra = fmt.Sprintf("[%d:%d]", t.I, t.J)
	}
	if t.Op == "uf" {
		extra = ":" + t.Name
	}
	s := "(" + t.Op + extra + " " + strings.Join(parts, " ") + ")"
	if len(s) > 300 {
		s = s[:300] + "…"
	}
	return s
}
