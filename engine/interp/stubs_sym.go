package interp

// Engine side of the harness API (package zz_verifsym).

import (
	"fmt"
	"go/token"
	"go/types"
)

func (ex *Exec) newScalar(name string, k types.BasicKind, kindName string) value {
	n := ex.freshName(name)
	ex.inputs = append(ex.inputs, Input{Name: n, Kind: kindName, Vars: []string{n}})
	return sym{Var(n, kindWidth(k)), k}
}

func strArg(v value) string {
	s, ok := v.(string)
	if !ok {
		panic(unsupported{"harness API name/label must be a constant string"})
	}
	return s
}

func registerSymAPI(e *Engine) {
	p := e.symPkg + "."
	scalar := func(fn string, k types.BasicKind, kn string) {
		e.reg(p+fn, func(fr *frame, args []value) value { return fr.ex.newScalar(strArg(args[0]), k, kn) })
	}
	scalar("U64", types.Uint64, "u64")
	scalar("I64", types.Int64, "i64")
	scalar("U32", types.Uint32, "u32")
	scalar("I32", types.Int32, "i32")
	scalar("Int", types.Int, "int")
	scalar("Byte", types.Uint8, "u8")
	scalar("Bool", types.Bool, "bool")

	e.reg(p+"Choice", func(fr *frame, args []value) value {
		ex := fr.ex
		n := int(ex.asInt64(args[1]))
		name := ex.freshName(strArg(args[0]))
		c := ex.choose(n)
		ex.inputs = append(ex.inputs, Input{Name: name, Kind: "choice", Conc: int64(c)})
		return c
	})
	mkBytes := func(ex *Exec, name string, n int) []value {
		in := Input{Name: name, Kind: "bytes", N: n}
		bs := make([]value, n)
		for i := 0; i < n; i++ {
			vn := fmt.Sprintf("%s[%d]", name, i)
			in.Vars = append(in.Vars, vn)
			bs[i] = sym{Var(vn, 8), types.Uint8}
		}
		ex.inputs = append(ex.inputs, in)
		return bs
	}
	e.reg(p+"Bytes", func(fr *frame, args []value) value {
		ex := fr.ex
		max := int(ex.asInt64(args[1]))
		name := ex.freshName(strArg(args[0]))
		n := ex.choose(max + 1)
		return mkBytes(ex, name, n)
	})
	e.reg(p+"BytesN", func(fr *frame, args []value) value {
		ex := fr.ex
		n := int(ex.asInt64(args[1]))
		name := ex.freshName(strArg(args[0]))
		return mkBytes(ex, name, n)
	})
	e.reg(p+"Str", func(fr *frame, args []value) value {
		ex := fr.ex
		max := int(ex.asInt64(args[1]))
		name := ex.freshName(strArg(args[0]))
		n := ex.choose(max + 1)
		return mkstr(mkBytes(ex, name, n))
	})
	e.reg(p+"StrN", func(fr *frame, args []value) value {
		ex := fr.ex
		n := int(ex.asInt64(args[1]))
		name := ex.freshName(strArg(args[0]))
		return mkstr(mkBytes(ex, name, n))
	})
	e.reg(p+"Assume", func(fr *frame, args []value) value {
		fr.ex.assume(termOf(args[0]))
		return nil
	})
	e.reg(p+"Assert", func(fr *frame, args []value) value {
		fr.ex.assert(termOf(args[0]), strArg(args[1]))
		return nil
	})
	e.reg(p+"Unreachable", func(fr *frame, args []value) value {
		fr.ex.assert(FalseT, strArg(args[0]))
		return nil
	})
	e.reg(p+"Native", func(fr *frame, args []value) value { return false })
	e.reg(p+"Reach", func(fr *frame, args []value) value {
		fr.ex.res.Reached[strArg(args[0])] = true
		return nil
	})
	e.reg(p+"Observe", func(fr *frame, args []value) value {
		v := args[1]
		if i, ok := v.(iface); ok {
			v = i.v
		}
		fr.ex.obs = append(fr.ex.obs, Observation{Name: strArg(args[0]), Val: v})
		return nil
	})
	e.reg(p+"Bound", func(fr *frame, args []value) value {
		v := args[1]
		if i, ok := v.(iface); ok {
			v = i.v
		}
		fr.ex.res.Bounds[strArg(args[0])] = fmt.Sprint(v)
		return nil
	})
	e.reg(p+"Note", func(fr *frame, args []value) value {
		fr.ex.notes = append(fr.ex.notes, fr.ex.textOf(args[0]))
		return nil
	})
	e.reg(p+"Param", func(fr *frame, args []value) value {
		name := strArg(args[0])
		v := int(asInt64c(args[1]))
		if pv, ok := fr.ex.eng.Params[name]; ok {
			v = pv
		}
		fr.ex.res.Bounds["param."+name] = fmt.Sprint(v)
		return v
	})
	// Visited(key, remaining): explicit-state pruning for fully concrete harness
	// states: true if this key was already explored with at least as much depth left.
	e.reg(p+"Visited", func(fr *frame, args []value) value {
		key := strArg(args[0])
		rem := int(asInt64c(args[1]))
		eng := fr.ex.eng
		if fr.ex.cursor < len(fr.ex.prefix) {
			return false // replaying a recorded prefix: these states belong to the path being extended
		}
		eng.mu.Lock()
		defer eng.mu.Unlock()
		if eng.visited == nil {
			eng.visited = map[string]int{}
		}
		if old, ok := eng.visited[key]; ok && old >= rem {
			eng.visitedHits++
			fr.ex.res.Pruned = true
			return true
		}
		eng.visited[key] = rem
		return false
	})
	// BoundExceeded(label): the harness ran into one of its own depth bounds before
	// reaching the state its assertions are about: an unwinding failure, never a pass.
	e.reg(p+"BoundExceeded", func(fr *frame, args []value) value {
		panic(pathEnd{"budget", "harness bound exceeded (unwinding failure): " + strArg(args[0])})
	})
	e.reg(p+"Symbolic", func(fr *frame, args []value) value { return true })
	// Ite(c, a, b): branch-free selection for harness oracles
	e.reg(p+"IteU64", func(fr *frame, args []value) value {
		return mkval(Ite(termOf(args[0]), termOf(args[1]), termOf(args[2])), types.Uint64)
	})
	e.reg(p+"IteInt", func(fr *frame, args []value) value {
		return mkval(Ite(termOf(args[0]), termOf(args[1]), termOf(args[2])), types.Int)
	})
	e.reg(p+"And", func(fr *frame, args []value) value {
		return mkval(And(termOf(args[0]), termOf(args[1])), types.Bool)
	})
	e.reg(p+"Or", func(fr *frame, args []value) value {
		return mkval(Or(termOf(args[0]), termOf(args[1])), types.Bool)
	})
	e.reg(p+"Implies", func(fr *frame, args []value) value {
		return mkval(Implies(termOf(args[0]), termOf(args[1])), types.Bool)
	})
	e.reg(p+"Iff", func(fr *frame, args []value) value {
		return mkval(Eq(termOf(args[0]), termOf(args[1])), types.Bool)
	})
	e.reg(p+"EqBytes", func(fr *frame, args []value) value {
		return mkval(bytesEqTerm(args[0].([]value), args[1].([]value)), types.Bool)
	})
	e.reg(p+"EqStr", func(fr *frame, args []value) value {
		return mkval(bytesEqTerm(strBytes(args[0]), strBytes(args[1])), types.Bool)
	})
}

// ObsString renders an observed value under a model the way the native
// zz_verifsym.Observe prints it.
func ObsString(v value, m Model) string {
	switch v := v.(type) {
	case sym:
		c, ok := Eval(v.t, m)
		if !ok {
			return "?"
		}
		return ObsString(concreteOf(c, v.k), m)
	case bool:
		return fmt.Sprint(v)
	case int, int8, int16, int32, int64:
		return fmt.Sprint(asInt64c(v))
	case uint, uint8, uint16, uint32, uint64, uintptr:
		return fmt.Sprint(uint64(asInt64c(v)))
	case string:
		return fmt.Sprintf("%x", v)
	case sstring:
		return hexOf(v.b, m)
	case []value:
		if v == nil {
			return ""
		}
		return hexOf(v, m)
	case nil:
		return "nil"
	}
	return fmt.Sprintf("<%T>", v)
}

func hexOf(b []value, m Model) string {
	s := ""
	for _, x := range b {
		switch x := x.(type) {
		case uint8:
			s += fmt.Sprintf("%02x", x)
		case sym:
			c, ok := Eval(x.t, m)
			if !ok {
				return "?"
			}
			s += fmt.Sprintf("%02x", c&0xff)
		default:
			return "?"
		}
	}
	return s
}

// redirectStubs: library constructors that reach the outside world are redirected to a
// harness-side hook in zz_verifsym with the same signature (the hook hands out the
// harness's in-memory object store registered for that URL).
func registerRedirects(e *Engine) {
	redirect := func(from, hook string) {
		e.reg(from, func(fr *frame, args []value) value {
			pkg := e.prog.ImportedPackage(e.symPkg)
			if pkg == nil || pkg.Func(hook) == nil {
				panic(unsupported{"no harness hook " + hook + " for " + from})
			}
			return fr.ex.callSSA(fr.caller, token.NoPos, pkg.Func(hook), args, nil)
		})
	}
	redirect("github.com/streamingfast/dstore.NewStore", "HookNewStore")
	redirect("github.com/streamingfast/dstore.NewDBinStore", "HookNewDBinStore")
}
