package interp

// github.com/shopspring/decimal on concrete values only: a Decimal is the
// two-field struct {value *big.Int; exp int32}; the engine keeps the real
// decimal.Decimal behind field 0 as an opaque object (decimals are immutable,
// so copying the struct shares it safely). A symbolic operand is unsupported:
// the bigdecimal store policies are explored over a concrete value set.

import (
	"fmt"

	"github.com/shopspring/decimal"
)

func decOf(v value) decimal.Decimal {
	if p, ok := v.(*value); ok {
		if p == nil {
			panic(rtPanic("invalid memory address or nil pointer dereference (nil *decimal.Decimal)"))
		}
		v = *p
	}
	st, ok := v.(structure)
	if !ok || len(st) != 2 {
		panic(unsupported{fmt.Sprintf("decimal operand %T", v)})
	}
	p, ok := st[0].(*value)
	if !ok {
		panic(unsupported{fmt.Sprintf("decimal value field %T", st[0])})
	}
	if p == nil {
		return decimal.Decimal{}
	}
	o, ok := (*p).(*opaque)
	if !ok || o.kind != "decimal" {
		panic(unsupported{"decimal built outside the engine stubs"})
	}
	return o.p.(decimal.Decimal)
}

func mkDec(d decimal.Decimal) value {
	v := value(&opaque{kind: "decimal", p: d})
	return structure{&v, int32(0)}
}

func concreteStr(v value, what string) string {
	switch s := v.(type) {
	case string:
		return s
	case sstring:
		if b, ok := bytesOfConcrete(s.b); ok {
			return string(b)
		}
	}
	panic(unsupported{what + " of a symbolic string"})
}

func registerDecimalStubs(e *Engine) {
	const pkg = "github.com/shopspring/decimal."
	const m = "(github.com/shopspring/decimal.Decimal)."
	const pm = "(*github.com/shopspring/decimal.Decimal)."
	e.reg(pkg+"NewFromString", func(fr *frame, args []value) value {
		d, err := decimal.NewFromString(concreteStr(args[0], "decimal.NewFromString"))
		if err != nil {
			return tuple{mkDec(decimal.Decimal{}), mkError(err.Error(), nil)}
		}
		return tuple{mkDec(d), iface{}}
	})
	e.reg(pkg+"NewFromInt", func(fr *frame, args []value) value {
		if isSym(args[0]) {
			panic(unsupported{"decimal.NewFromInt of a symbolic integer"})
		}
		return mkDec(decimal.NewFromInt(asInt64c(args[0])))
	})
	e.reg(m+"String", func(fr *frame, args []value) value { return decOf(args[0]).String() })
	e.reg(m+"Add", func(fr *frame, args []value) value { return mkDec(decOf(args[0]).Add(decOf(args[1]))) })
	e.reg(m+"Sub", func(fr *frame, args []value) value { return mkDec(decOf(args[0]).Sub(decOf(args[1]))) })
	e.reg(m+"Cmp", func(fr *frame, args []value) value { return decOf(args[0]).Cmp(decOf(args[1])) })
	e.reg(m+"Equal", func(fr *frame, args []value) value { return decOf(args[0]).Equal(decOf(args[1])) })
	e.reg(m+"Truncate", func(fr *frame, args []value) value {
		return mkDec(decOf(args[0]).Truncate(int32(asInt64c(args[1]))))
	})
	e.reg(m+"MarshalBinary", func(fr *frame, args []value) value {
		b, err := decOf(args[0]).MarshalBinary()
		if err != nil {
			return tuple{[]value(nil), mkError(err.Error(), nil)}
		}
		return tuple{valuesOfBytes(b), iface{}}
	})
	e.reg(pm+"UnmarshalBinary", func(fr *frame, args []value) value {
		sl, ok := args[1].([]value)
		if !ok {
			panic(unsupported{"decimal.UnmarshalBinary argument"})
		}
		b, ok := bytesOfConcrete(sl)
		if !ok {
			panic(unsupported{"decimal.UnmarshalBinary of symbolic bytes"})
		}
		var d decimal.Decimal
		if err := d.UnmarshalBinary(b); err != nil {
			return mkError(err.Error(), nil)
		}
		p := args[0].(*value)
		*p = mkDec(d)
		return iface{}
	})
}
