package interp

// Library stubs. Every entry is part of a check's trusted base and every hit
// is listed in the evidence (stubs_hit).

import (
	"fmt"
	"go/types"
	"math"
	"reflect"
	"regexp"
	"strconv"
	"strings"
	"unicode/utf8"

	"golang.org/x/tools/go/ssa"
)

var errorIfaceRT = reflect.TypeOf((*error)(nil)).Elem()

// toNative converts an interpreter value to a reflect.Value of type rt.
func toNative(v value, rt reflect.Type) reflect.Value {
	switch rt.Kind() {
	case reflect.String:
		s, ok := v.(string)
		if !ok {
			panic(unsupported{fmt.Sprintf("native call with non-concrete string (%T)", v)})
		}
		return reflect.ValueOf(s).Convert(rt)
	case reflect.Bool:
		b, ok := v.(bool)
		if !ok {
			panic(unsupported{"native call with symbolic bool"})
		}
		return reflect.ValueOf(b).Convert(rt)
	case reflect.Int, reflect.Int8, reflect.Int16, reflect.Int32, reflect.Int64:
		if isSym(v) {
			panic(unsupported{"native call with symbolic integer"})
		}
		return reflect.ValueOf(asInt64c(v)).Convert(rt)
	case reflect.Uint, reflect.Uint8, reflect.Uint16, reflect.Uint32, reflect.Uint64, reflect.Uintptr:
		if isSym(v) {
			panic(unsupported{"native call with symbolic integer"})
		}
		return reflect.ValueOf(uint64(asInt64c(v))).Convert(rt)
	case reflect.Float64, reflect.Float32:
		switch f := v.(type) {
		case float64:
			return reflect.ValueOf(f).Convert(rt)
		case float32:
			return reflect.ValueOf(f).Convert(rt)
		}
	case reflect.Slice:
		sl, ok := v.([]value)
		if !ok {
			panic(unsupported{fmt.Sprintf("native call slice arg %T", v)})
		}
		out := reflect.MakeSlice(rt, len(sl), len(sl))
		for i, x := range sl {
			out.Index(i).Set(toNative(x, rt.Elem()))
		}
		if sl == nil {
			return reflect.Zero(rt)
		}
		return out
	}
	panic(unsupported{fmt.Sprintf("native call: cannot convert %T to %s", v, rt)})
}

// fromNative converts a native result to an interpreter value of static type t.
func fromNative(rv reflect.Value, t types.Type) value {
	if rv.Type() == errorIfaceRT || (rv.Kind() == reflect.Interface && rv.Type().Implements(errorIfaceRT)) {
		if rv.IsNil() {
			return iface{}
		}
		return mkError(rv.Interface().(error).Error(), nil)
	}
	switch rv.Kind() {
	case reflect.String:
		return rv.String()
	case reflect.Bool:
		return rv.Bool()
	case reflect.Int, reflect.Int8, reflect.Int16, reflect.Int32, reflect.Int64:
		return concreteOf(uint64(rv.Int()), basicKind(t))
	case reflect.Uint, reflect.Uint8, reflect.Uint16, reflect.Uint32, reflect.Uint64, reflect.Uintptr:
		return concreteOf(rv.Uint(), basicKind(t))
	case reflect.Float64:
		return rv.Float()
	case reflect.Float32:
		return float32(rv.Float())
	case reflect.Slice:
		if rv.IsNil() {
			return []value(nil)
		}
		et := t.Underlying().(*types.Slice).Elem()
		out := make([]value, rv.Len())
		for i := range out {
			out[i] = fromNative(rv.Index(i), et)
		}
		return out
	}
	panic(unsupported{fmt.Sprintf("native result of kind %s", rv.Kind())})
}

// nat wraps a real Go function: all arguments must be concrete.
func nat(f interface{}) externalFn {
	fv := reflect.ValueOf(f)
	ft := fv.Type()
	return func(fr *frame, args []value) value {
		in := make([]reflect.Value, len(args))
		for i, a := range args {
			var pt reflect.Type
			if ft.IsVariadic() && i >= ft.NumIn()-1 {
				pt = ft.In(ft.NumIn() - 1)
				if i == ft.NumIn()-1 && len(args) == ft.NumIn() {
					// variadic passed as slice
					in[i] = toNative(a, pt)
					continue
				}
				pt = pt.Elem()
			} else {
				pt = ft.In(i)
			}
			in[i] = toNative(a, pt)
		}
		var out []reflect.Value
		if ft.IsVariadic() {
			out = fv.CallSlice(in)
		} else {
			out = fv.Call(in)
		}
		res := fr.fn.Signature.Results()
		switch len(out) {
		case 0:
			return nil
		case 1:
			return fromNative(out[0], res.At(0).Type())
		}
		t := make(tuple, len(out))
		for i := range out {
			t[i] = fromNative(out[i], res.At(i).Type())
		}
		return t
	}
}

func noop(fr *frame, args []value) value { return zeroResult(fr.fn) }

func retRecv(fr *frame, args []value) value { return args[0] }

func allConcrete(vs []value) bool {
	for _, v := range vs {
		switch x := v.(type) {
		case sym, sstring:
			return false
		case []value:
			if !allConcrete(x) {
				return false
			}
		case iface:
			if !allConcrete([]value{x.v}) {
				return false
			}
		}
	}
	return true
}

func bytesOfConcrete(v []value) ([]byte, bool) {
	out := make([]byte, len(v))
	for i, x := range v {
		c, ok := x.(uint8)
		if !ok {
			return nil, false
		}
		out[i] = c
	}
	return out, true
}

func valuesOfBytes(b []byte) []value {
	out := make([]value, len(b))
	for i, c := range b {
		out[i] = c
	}
	return out
}

// indexByte finds c in b, forking on symbolic comparisons.
func (ex *Exec) indexByte(b []value, c value) int {
	for i, x := range b {
		if ex.decide(eqTerm(x, c)) {
			return i
		}
	}
	return -1
}

func registerStubs(e *Engine) {
	registerSymAPI(e)
	registerRedirects(e)
	registerStoreStubs(e)
	registerNumStubs(e)
	registerProtoStubs(e)
	registerHashStubs(e)
	registerRoaringStubs(e)
	registerConnectStubs(e)

	// ---- fmt ----
	e.reg("fmt.Sprintf", func(fr *frame, args []value) value { return fr.ex.sprintf(fr, args[0], args[1].([]value)) })
	e.reg("fmt.Errorf", func(fr *frame, args []value) value {
		var wrapped value
		if f, ok := args[0].(string); ok && strings.Contains(f, "%w") {
			// the operand of %w: match verbs to args
			vi := 0
			for i := 0; i < len(f); i++ {
				if f[i] != '%' {
					continue
				}
				i++
				for i < len(f) && strings.ContainsRune("+-# 0123456789.*[]", rune(f[i])) {
					i++
				}
				if i >= len(f) {
					break
				}
				if f[i] == '%' {
					continue
				}
				if f[i] == 'w' && vi < len(args[1].([]value)) {
					wrapped = args[1].([]value)[vi]
				}
				vi++
			}
		}
		return mkError(fr.ex.sprintf(fr, args[0], args[1].([]value)), wrapped)
	})
	e.reg("fmt.Sprint", func(fr *frame, args []value) value {
		nat := []interface{}{}
		for _, a := range args[0].([]value) {
			nat = append(nat, fr.ex.nativeArg(fr, a))
		}
		return fmt.Sprint(nat...)
	})
	e.reg("fmt.Sprintln", func(fr *frame, args []value) value {
		nat := []interface{}{}
		for _, a := range args[0].([]value) {
			nat = append(nat, fr.ex.nativeArg(fr, a))
		}
		return fmt.Sprintln(nat...)
	})
	for _, n := range []string{"fmt.Printf", "fmt.Println", "fmt.Print", "fmt.Fprintf", "fmt.Fprintln", "fmt.Fprint"} {
		e.reg(n, noop)
	}

	// ---- errors ----
	e.reg("errors.New", func(fr *frame, args []value) value { return mkError(args[0], nil) })
	e.reg("errors.Unwrap", func(fr *frame, args []value) value {
		i := args[0].(iface)
		if r, ok := fr.ex.callMethod(fr, i, "Unwrap"); ok {
			if ri, isI := r.(iface); isI {
				return ri
			}
		}
		return iface{}
	})
	e.reg("errors.Is", func(fr *frame, args []value) value {
		err, target := args[0].(iface), args[1].(iface)
		for depth := 0; err.t != nil && depth < 50; depth++ {
			if sameType(err.t, target.t) {
				c := eqTerm(err.v, target.v)
				if c.IsTrue() {
					return true
				}
			}
			if r, ok := fr.ex.callMethod(fr, err, "Is", target); ok {
				if b, isB := r.(bool); isB && b {
					return true
				}
			}
			r, ok := fr.ex.callMethod(fr, err, "Unwrap")
			if !ok {
				return false
			}
			ri, isI := r.(iface)
			if !isI {
				return false // Unwrap() []error not modelled
			}
			err = ri
		}
		return false
	})
	e.reg("errors.As", func(fr *frame, args []value) value {
		err, target := args[0].(iface), args[1].(iface)
		pt, ok := target.t.Underlying().(*types.Pointer)
		if !ok {
			panic(targetPanic{mkError("errors: target must be a non-nil pointer", nil)})
		}
		want := pt.Elem()
		cell := target.v.(*value)
		for depth := 0; err.t != nil && depth < 50; depth++ {
			if wi, isIface := want.Underlying().(*types.Interface); isIface {
				if _, eng := engTypes[err.t]; !eng {
					if m, _ := types.MissingMethod(err.t, wi, true); m == nil {
						*cell = err
						return true
					}
				}
			} else if types.Identical(err.t, want) {
				*cell = err.v
				return true
			}
			r, ok := fr.ex.callMethod(fr, err, "Unwrap")
			if !ok {
				return false
			}
			ri, isI := r.(iface)
			if !isI {
				return false
			}
			err = ri
		}
		return false
	})

	// ---- strconv ----
	e.reg("strconv.Itoa", func(fr *frame, args []value) value { return fr.ex.formatInt(args[0], true) })
	e.reg("strconv.FormatInt", func(fr *frame, args []value) value {
		if b, ok := args[1].(int); !ok || b != 10 {
			if allConcrete(args) {
				return strconv.FormatInt(asInt64c(args[0]), int(asInt64c(args[1])))
			}
			panic(unsupported{"FormatInt base != 10 on symbolic"})
		}
		return fr.ex.formatInt(args[0], true)
	})
	e.reg("strconv.FormatUint", func(fr *frame, args []value) value {
		if b, ok := args[1].(int); !ok || b != 10 {
			if allConcrete(args) {
				return strconv.FormatUint(uint64(asInt64c(args[0])), int(asInt64c(args[1])))
			}
			panic(unsupported{"FormatUint base != 10 on symbolic"})
		}
		return fr.ex.formatInt(args[0], false)
	})
	e.reg("strconv.Atoi", func(fr *frame, args []value) value {
		return fr.ex.parseInt(fr, args[0], 64, types.Int, true)
	})
	e.reg("strconv.ParseInt", func(fr *frame, args []value) value {
		if b := asInt64c(args[1]); b != 10 && b != 0 || !isConcreteStr(args[0]) && b != 10 {
			if allConcrete(args) {
				return nat(strconv.ParseInt)(fr, args)
			}
			panic(unsupported{"ParseInt base != 10 on symbolic"})
		}
		return fr.ex.parseInt(fr, args[0], int(asInt64c(args[2])), types.Int64, true)
	})
	e.reg("strconv.ParseUint", func(fr *frame, args []value) value {
		if b := asInt64c(args[1]); b != 10 {
			if allConcrete(args) {
				return nat(strconv.ParseUint)(fr, args)
			}
			panic(unsupported{"ParseUint base != 10 on symbolic"})
		}
		return fr.ex.parseInt(fr, args[0], int(asInt64c(args[2])), types.Uint64, false)
	})
	e.reg("strconv.ParseFloat", nat(strconv.ParseFloat))
	e.reg("strconv.FormatFloat", func(fr *frame, args []value) value {
		return strconv.FormatFloat(args[0].(float64), byte(asInt64c(args[1])), int(asInt64c(args[2])), int(asInt64c(args[3])))
	})
	e.reg("strconv.Quote", nat(strconv.Quote))
	e.reg("math.Float64bits", nat(math.Float64bits))
	e.reg("math.Float64frombits", nat(math.Float64frombits))
	e.reg("math.IsNaN", nat(math.IsNaN))
	e.reg("math.IsInf", nat(math.IsInf))
	e.reg("math.Abs", nat(math.Abs))
	e.reg("strconv.ParseBool", nat(strconv.ParseBool))
	e.reg("strconv.FormatBool", nat(strconv.FormatBool))

	// ---- internal/bytealg (asm) ----
	e.reg("internal/bytealg.IndexByte", func(fr *frame, args []value) value { return fr.ex.indexByte(args[0].([]value), args[1]) })
	e.reg("internal/bytealg.IndexByteString", func(fr *frame, args []value) value { return fr.ex.indexByte(strBytes(args[0]), args[1]) })
	e.reg("internal/bytealg.Equal", func(fr *frame, args []value) value {
		return mkval(bytesEqTerm(args[0].([]value), args[1].([]value)), types.Bool)
	})
	e.reg("bytes.Equal", func(fr *frame, args []value) value {
		return mkval(bytesEqTerm(args[0].([]value), args[1].([]value)), types.Bool)
	})
	e.reg("internal/bytealg.Compare", func(fr *frame, args []value) value { return fr.ex.compareBytes(args[0].([]value), args[1].([]value)) })
	e.reg("bytes.Compare", func(fr *frame, args []value) value { return fr.ex.compareBytes(args[0].([]value), args[1].([]value)) })
	e.reg("strings.Compare", func(fr *frame, args []value) value { return fr.ex.compareBytes(strBytes(args[0]), strBytes(args[1])) })
	e.reg("internal/bytealg.Count", func(fr *frame, args []value) value {
		n := 0
		for _, x := range args[0].([]value) {
			if fr.ex.decide(eqTerm(x, args[1])) {
				n++
			}
		}
		return n
	})
	e.reg("internal/bytealg.CountString", func(fr *frame, args []value) value {
		n := 0
		for _, x := range strBytes(args[0]) {
			if fr.ex.decide(eqTerm(x, args[1])) {
				n++
			}
		}
		return n
	})
	idx := func(fr *frame, a, b []value) value {
		for i := 0; i+len(b) <= len(a); i++ {
			if fr.ex.decide(bytesEqTerm(a[i:i+len(b)], b)) {
				return i
			}
		}
		return -1
	}
	e.reg("internal/bytealg.Index", func(fr *frame, args []value) value { return idx(fr, args[0].([]value), args[1].([]value)) })
	e.reg("internal/bytealg.IndexString", func(fr *frame, args []value) value { return idx(fr, strBytes(args[0]), strBytes(args[1])) })
	e.reg("strings.Index", func(fr *frame, args []value) value { return idx(fr, strBytes(args[0]), strBytes(args[1])) })
	e.reg("bytes.Index", func(fr *frame, args []value) value { return idx(fr, args[0].([]value), args[1].([]value)) })
	e.reg("internal/bytealg.MakeNoZero", func(fr *frame, args []value) value {
		n := int(fr.ex.asInt64(args[0]))
		out := make([]value, n)
		for i := range out {
			out[i] = uint8(0)
		}
		return out
	})
	e.reg("internal/stringslite.HasPrefix", func(fr *frame, args []value) value {
		s, p := strBytes(args[0]), strBytes(args[1])
		if len(s) < len(p) {
			return false
		}
		return mkval(bytesEqTerm(s[:len(p)], p), types.Bool)
	})
	e.reg("internal/stringslite.HasSuffix", func(fr *frame, args []value) value {
		s, p := strBytes(args[0]), strBytes(args[1])
		if len(s) < len(p) {
			return false
		}
		return mkval(bytesEqTerm(s[len(s)-len(p):], p), types.Bool)
	})
	e.reg("internal/stringslite.Index", func(fr *frame, args []value) value { return idx(fr, strBytes(args[0]), strBytes(args[1])) })
	e.reg("internal/stringslite.IndexByte", func(fr *frame, args []value) value { return fr.ex.indexByte(strBytes(args[0]), args[1]) })
	e.reg("internal/stringslite.TrimPrefix", func(fr *frame, args []value) value {
		s, p := strBytes(args[0]), strBytes(args[1])
		if len(s) >= len(p) && fr.ex.decide(bytesEqTerm(s[:len(p)], p)) {
			return mkstr(s[len(p):])
		}
		return args[0]
	})
	e.reg("internal/stringslite.TrimSuffix", func(fr *frame, args []value) value {
		s, p := strBytes(args[0]), strBytes(args[1])
		if len(s) >= len(p) && fr.ex.decide(bytesEqTerm(s[len(s)-len(p):], p)) {
			return mkstr(s[:len(s)-len(p)])
		}
		return args[0]
	})
	e.reg("internal/stringslite.Cut", func(fr *frame, args []value) value {
		s, sep := strBytes(args[0]), strBytes(args[1])
		i := idx(fr, s, sep).(int)
		if i >= 0 {
			return tuple{mkstr(s[:i]), mkstr(s[i+len(sep):]), true}
		}
		return tuple{args[0], "", false}
	})
	e.reg("strings.Clone", func(fr *frame, args []value) value { return args[0] })
	e.reg("internal/stringslite.Clone", func(fr *frame, args []value) value { return args[0] })
	e.reg("strings.ToLower", nat(strings.ToLower))
	e.reg("strings.ToUpper", nat(strings.ToUpper))
	e.reg("strings.Repeat", nat(strings.Repeat))
	e.reg("strings.Replace", nat(strings.Replace))
	e.reg("strings.ReplaceAll", nat(strings.ReplaceAll))
	e.reg("strings.EqualFold", nat(strings.EqualFold))
	e.reg("strings.Fields", nat(strings.Fields))
	e.reg("strings.TrimSpace", func(fr *frame, args []value) value {
		if s, ok := args[0].(string); ok {
			return strings.TrimSpace(s)
		}
		// symbolic bytes: fork on "is ASCII white space" at either end. A byte >= 0x80
		// starts a multi-byte rune (U+0085, U+00A0, U+2000...): only the lone-byte case
		// (invalid UTF-8, RuneError, not a space) is modelled, anything longer is unsupported.
		b := strBytes(args[0])
		isSpace := func(x value, rest int) bool {
			t := termOf(x)
			if fr.ex.decide(Not(Bin("bvult", t, BV(8, 0x80)))) {
				if rest == 1 {
					return false
				}
				panic(unsupported{"TrimSpace on a symbolic multi-byte rune"})
			}
			sp := Eq(t, BV(8, ' '))
			for _, c := range []byte{'\t', '\n', '\v', '\f', '\r'} {
				sp = Or(sp, Eq(t, BV(8, uint64(c))))
			}
			return fr.ex.decide(sp)
		}
		lo, hi := 0, len(b)
		for lo < hi && isSpace(b[lo], hi-lo) {
			lo++
		}
		for hi > lo && isSpace(b[hi-1], hi-lo) {
			hi--
		}
		return mkstr(b[lo:hi])
	})
	e.reg("unicode/utf8.ValidString", func(fr *frame, args []value) value {
		if s, ok := args[0].(string); ok {
			return utf8.ValidString(s)
		}
		panic(unsupported{"utf8.ValidString on symbolic string"})
	})

	// ---- builders / buffers (methods on library structs, kept opaque in field 0) ----
	registerBuilderStubs(e)

	// ---- sort ----
	sortSlice := func(fr *frame, args []value) value {
		sl := args[0].(iface).v.([]value)
		less := args[1]
		// insertion sort (stable) calling the real less
		for i := 1; i < len(sl); i++ {
			for j := i; j > 0; j-- {
				r := fr.ex.call(fr, 0, less, []value{j, j - 1})
				lt := false
				switch r := r.(type) {
				case bool:
					lt = r
				case sym:
					lt = fr.ex.decide(r.t)
				}
				if !lt {
					break
				}
				sl[j], sl[j-1] = sl[j-1], sl[j]
			}
		}
		return nil
	}
	e.reg("sort.Slice", sortSlice)
	e.reg("sort.SliceStable", sortSlice)

	// ---- sync ----
	for _, n := range []string{
		"(*sync.Mutex).Lock", "(*sync.Mutex).Unlock", "(*sync.RWMutex).Lock", "(*sync.RWMutex).Unlock",
		"(*sync.RWMutex).RLock", "(*sync.RWMutex).RUnlock", "(*sync.WaitGroup).Add", "(*sync.WaitGroup).Done",
		"(*sync.WaitGroup).Wait", "(*sync.Mutex).TryLock", "runtime.Gosched", "runtime.GC", "runtime.KeepAlive",
		"time.Sleep",
	} {
		e.reg(n, noop)
	}
	e.reg("(*sync.Once).Do", func(fr *frame, args []value) value {
		cell := args[0].(*value)
		st := (*cell).(structure)
		// field 0 is done (atomic.Uint32 structure or uint32): use a marker instead
		if _, done := st[0].(*opaque); done {
			return nil
		}
		st[0] = &opaque{kind: "once-done"}
		fr.ex.call(fr, 0, args[1], nil)
		return nil
	})
	registerAtomicStubs(e)

	// ---- os / time / context / misc environment ----
	e.reg("os.Getenv", func(fr *frame, args []value) value { return "" })
	e.reg("runtime/debug.Stack", func(fr *frame, args []value) value { return []value(nil) })
	e.reg("os.LookupEnv", func(fr *frame, args []value) value { return tuple{"", false} })
	registerConcStubs(e)
	e.reg("(time.Duration).String", func(fr *frame, args []value) value { return "0s" })
	e.reg("(time.Duration).Seconds", func(fr *frame, args []value) value { return float64(0) })
	e.reg("(time.Duration).Milliseconds", func(fr *frame, args []value) value { return int64(0) })
	e.reg("(time.Duration).Microseconds", func(fr *frame, args []value) value { return int64(0) })
	e.reg("(time.Duration).Nanoseconds", func(fr *frame, args []value) value { return int64(0) })
	registerContextStubs(e)

	// ---- regexp (concrete subjects only) ----
	e.reg("regexp.MustCompile", func(fr *frame, args []value) value {
		s, ok := args[0].(string)
		if !ok {
			panic(unsupported{"regexp pattern must be concrete"})
		}
		re := regexp.MustCompile(s)
		v := value(&opaque{kind: "regexp", p: re})
		return &v
	})
	reOf := func(v value) *regexp.Regexp {
		p, ok := v.(*value)
		if !ok || p == nil {
			panic(unsupported{"regexp receiver"})
		}
		o, ok := (*p).(*opaque)
		if !ok {
			panic(unsupported{"regexp receiver not engine-made"})
		}
		return o.p.(*regexp.Regexp)
	}
	concStr := func(v value) string {
		s, ok := v.(string)
		if !ok {
			panic(unsupported{"regexp on symbolic string"})
		}
		return s
	}
	e.reg("(*regexp.Regexp).MatchString", func(fr *frame, args []value) value { return reOf(args[0]).MatchString(concStr(args[1])) })
	e.reg("(*regexp.Regexp).FindStringSubmatch", func(fr *frame, args []value) value {
		r := reOf(args[0]).FindStringSubmatch(concStr(args[1]))
		if r == nil {
			return []value(nil)
		}
		out := make([]value, len(r))
		for i, s := range r {
			out[i] = s
		}
		return out
	})
	e.reg("(*regexp.Regexp).FindAllStringSubmatch", func(fr *frame, args []value) value {
		r := reOf(args[0]).FindAllStringSubmatch(concStr(args[1]), int(asInt64c(args[2])))
		if r == nil {
			return []value(nil)
		}
		out := make([]value, len(r))
		for i, m := range r {
			ms := make([]value, len(m))
			for j, s := range m {
				ms[j] = s
			}
			out[i] = ms
		}
		return out
	})
	e.reg("(*regexp.Regexp).String", func(fr *frame, args []value) value { return reOf(args[0]).String() })
	e.reg("regexp.Compile", func(fr *frame, args []value) value {
		s, ok := args[0].(string)
		if !ok {
			panic(unsupported{"regexp pattern must be concrete"})
		}
		re, err := regexp.Compile(s)
		if err != nil {
			return tuple{(*value)(nil), mkError(err.Error(), nil)}
		}
		v := value(&opaque{kind: "regexp", p: re})
		return tuple{&v, iface{}}
	})
	e.reg("(*regexp.Regexp).SubexpNames", func(fr *frame, args []value) value {
		names := reOf(args[0]).SubexpNames()
		out := make([]value, len(names))
		for i, n := range names {
			out[i] = n
		}
		return out
	})
	e.reg("(*regexp.Regexp).FindSubmatchIndex", func(fr *frame, args []value) value {
		sl, _ := args[1].([]value)
		b, ok := bytesOfConcrete(sl)
		if !ok {
			panic(unsupported{"regexp on symbolic bytes"})
		}
		r := reOf(args[0]).FindSubmatchIndex(b)
		if r == nil {
			return []value(nil)
		}
		out := make([]value, len(r))
		for i, x := range r {
			out[i] = x
		}
		return out
	})

	// ---- logging / metrics / tracing: environment, no effect on results ----
	for _, pfx := range []string{
		"(*go.uber.org/zap.Logger).", "go.uber.org/zap.", "(*go.uber.org/zap.SugaredLogger).", "(go.uber.org/zap/zapcore.",
		"go.uber.org/zap/zapcore.", "(*go.uber.org/zap/zapcore.",
		"github.com/streamingfast/logging.", "(*github.com/streamingfast/logging.",
		"(*github.com/streamingfast/dmetrics.", "github.com/streamingfast/dmetrics.", "(github.com/streamingfast/dmetrics.",
		"go.opentelemetry.io/otel", "(go.opentelemetry.io/otel", "(*go.opentelemetry.io/otel",
		"github.com/streamingfast/logging/zapx.",
		"github.com/streamingfast/dmetering.", "(github.com/streamingfast/dmetering.", "(*github.com/streamingfast/dmetering.",
		"github.com/streamingfast/dstore.With", "github.com/streamingfast/sf-tracing.",
		"github.com/prometheus/client_golang/prometheus.", "(*github.com/prometheus/client_golang/prometheus.", "(github.com/prometheus/client_golang/prometheus.",
	} {
		prefixStubs = append(prefixStubs, prefixStub{pfx, func(name string) externalFn {
			return func(fr *frame, args []value) value {
				// fluent loggers return themselves
				res := fr.fn.Signature.Results()
				if res.Len() == 1 && len(args) > 0 && fr.fn.Signature.Recv() != nil && types.Identical(res.At(0).Type(), fr.fn.Signature.Recv().Type()) {
					return args[0]
				}
				return envResultsCtx(fr.fn.Signature, args)
			}
		}})
	}
}

// zeroOrOpaque returns zero results, but a non-nil opaque pointer for pointer results
// (so that later method calls on e.g. a *zap.Logger do not look like nil dereferences).
func zeroOrOpaque(fn *ssa.Function) value { return envResults(fn.Signature) }

// envObjType is the dynamic type of environment objects (tracers, spans,
// providers, ...) returned through interfaces by logging/metrics/tracing
// stubs: every method call on them is again an environment no-op.
var envObjType = newEngType("envObject", types.NewPointer(types.Typ[types.Int]), map[string]engMethod{})

func envValue(t types.Type) value {
	if _, ok := t.Underlying().(*types.Pointer); ok {
		v := value(&opaque{kind: "env:" + t.String()})
		return &v
	}
	if it, ok := t.Underlying().(*types.Interface); ok && !isErrorIface(it) && it.NumMethods() > 0 {
		return iface{t: envObjType.named, v: &opaque{kind: "env:" + t.String()}}
	}
	return zero(t)
}

func envResults(sig *types.Signature) value {
	res := sig.Results()
	mk := func(t types.Type) value {
		if _, ok := t.Underlying().(*types.Pointer); ok {
			v := value(&opaque{kind: "env:" + t.String()})
			return &v
		}
		if it, ok := t.Underlying().(*types.Interface); ok && !isErrorIface(it) && it.NumMethods() > 0 {
			return iface{t: envObjType.named, v: &opaque{kind: "env:" + t.String()}}
		}
		return zero(t)
	}
	switch res.Len() {
	case 0:
		return nil
	case 1:
		return mk(res.At(0).Type())
	}
	t := make(tuple, res.Len())
	for i := range t {
		t[i] = mk(res.At(i).Type())
	}
	return t
}

// envResultsCtx is envResults, except that a context.Context result is the context the
// call was given (a tracer's Start returns a context derived from its argument: values,
// cancellation and deadline are those of the parent).
func envResultsCtx(sig *types.Signature, args []value) value {
	r := envResults(sig)
	var ctx value
	for _, a := range args {
		if i, ok := a.(iface); ok && i.t == engCtxType.named {
			ctx = a
			break
		}
	}
	if ctx == nil {
		return r
	}
	isCtx := func(t types.Type) bool { return t.String() == "context.Context" }
	res := sig.Results()
	if res.Len() == 1 {
		if isCtx(res.At(0).Type()) {
			return ctx
		}
		return r
	}
	if t, ok := r.(tuple); ok {
		for i := range t {
			if isCtx(res.At(i).Type()) {
				t[i] = ctx
			}
		}
	}
	return r
}

func isConcreteStr(v value) bool { _, ok := v.(string); return ok }

func (ex *Exec) compareBytes(a, b []value) value {
	if ca, ok := bytesOfConcrete(a); ok {
		if cb, ok := bytesOfConcrete(b); ok {
			return strings.Compare(string(ca), string(cb))
		}
	}
	if ex.decide(bytesEqTerm(a, b)) {
		return 0
	}
	if ex.decide(bytesLtTerm(a, b)) {
		return -1
	}
	return 1
}

// formatInt renders a decimal integer. A symbolic operand is case-split on
// sign and digit count up to Cfg.MaxDigits (values beyond are outside the
// bound: the path is cut and counted).
func (ex *Exec) formatInt(v value, signed bool) value {
	s, ok := v.(sym)
	if !ok {
		if signed {
			return strconv.FormatInt(asInt64c(v), 10)
		}
		return strconv.FormatUint(uint64(asInt64c(v)), 10)
	}
	w := s.t.S
	t := s.t
	neg := false
	if signed && kindSigned(s.k) {
		if ex.decide(Bin("bvslt", t, BV(w, 0))) {
			neg = true
			t = Un("bvneg", t)
		}
	}
	maxd := ex.eng.maxDigits()
	pow := uint64(1)
	for d := 1; d <= maxd; d++ {
		pow *= 10
		if ex.decide(Bin("bvult", t, BV(w, pow))) {
			out := make([]value, 0, d+1)
			if neg {
				out = append(out, uint8('-'))
			}
			p := pow / 10
			for i := 0; i < d; i++ {
				dig := Bin("bvurem", Bin("bvudiv", t, BV(w, p)), BV(w, 10))
				b := Bin("bvadd", Extract(7, 0, dig), BV(8, '0'))
				out = append(out, mkval(b, types.Uint8))
				p /= 10
			}
			return mkstr(out)
		}
	}
	ex.res.Bounds["formatInt.maxDigits"] = fmt.Sprint(maxd)
	panic(pathEnd{"assume", fmt.Sprintf("symbolic integer with more than %d digits is outside the bound", maxd)})
}

func (e *Engine) maxDigits() int {
	if e.MaxDigits > 0 {
		return e.MaxDigits
	}
	return 2
}

// parseInt implements strconv.ParseInt/ParseUint/Atoi results (value, error).
func (ex *Exec) parseInt(fr *frame, sv value, bits int, k types.BasicKind, signed bool) value {
	rk := basicKind(fr.fn.Signature.Results().At(0).Type())
	if s, ok := sv.(string); ok {
		if bits == 0 {
			bits = 64
		}
		if signed {
			n, err := strconv.ParseInt(s, 10, bits)
			var ev value = iface{}
			if err != nil {
				ev = mkError(err.Error(), nil)
			}
			return tuple{concreteOf(uint64(n), rk), ev}
		}
		n, err := strconv.ParseUint(s, 10, bits)
		var ev value = iface{}
		if err != nil {
			ev = mkError(err.Error(), nil)
		}
		return tuple{concreteOf(n, rk), ev}
	}
	r := ex.parseIntTo(sv, rk, signed)
	if r.err {
		return tuple{concreteOf(0, rk), mkError("strconv: parsing <symbolic>: invalid syntax", nil)}
	}
	return tuple{r.v, iface{}}
}

func parseInt64(s string) (int64, error)   { return strconv.ParseInt(s, 10, 64) }
func parseUint64(s string) (uint64, error) { return strconv.ParseUint(s, 10, 64) }
