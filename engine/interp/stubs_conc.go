package interp

// llerrgroup (runs tasks synchronously, first error wins) and a per-path clock.

import (
	"go/types"
)

type errGroup struct{ err value }

// groups are real zero structs (so promoted methods can take field addresses);
// their state lives in a per-path side table keyed by the struct's address and
// by the address of the embedded errgroup.Group.
func (ex *Exec) groupOf(v value) *errGroup {
	p, ok := v.(*value)
	if !ok || p == nil {
		panic(unsupported{"llerrgroup receiver"})
	}
	tbl, _ := ex.extra["llerrgroup"].(map[*value]*errGroup)
	if g, ok := tbl[p]; ok {
		return g
	}
	panic(unsupported{"llerrgroup group not created through llerrgroup.New"})
}

// clock returns the per-path clock in nanoseconds.
func (ex *Exec) clockNs() int64 {
	if v, ok := ex.extra["clock"]; ok {
		return v.(int64)
	}
	return 0
}

func timeExt(v value) int64 {
	st, ok := v.(structure)
	if !ok {
		panic(unsupported{"time.Time value not created by the engine"})
	}
	n, _ := st[1].(int64)
	return n
}

func registerConcStubs(e *Engine) {
	g := "github.com/abourget/llerrgroup."
	m := "(*github.com/abourget/llerrgroup.Group)."
	e.reg(g+"New", func(fr *frame, args []value) value {
		ex := fr.ex
		cell := zero(mustDeref(fr.fn.Signature.Results().At(0).Type()))
		p := &cell
		tbl, _ := ex.extra["llerrgroup"].(map[*value]*errGroup)
		if tbl == nil {
			tbl = map[*value]*errGroup{}
			ex.extra["llerrgroup"] = tbl
		}
		st := &errGroup{}
		tbl[p] = st
		tbl[&cell.(structure)[0]] = st
		return p
	})
	e.reg(m+"Stop", func(fr *frame, args []value) value { return fr.ex.groupOf(args[0]).err != nil })
	e.reg(m+"Free", noop)
	e.reg(m+"SetSize", noop)
	e.reg(m+"CallsCount", func(fr *frame, args []value) value { return 0 })
	e.reg(m+"Go", func(fr *frame, args []value) value {
		gr := fr.ex.groupOf(args[0])
		r := fr.ex.call(fr, 0, args[1], nil)
		if ri, ok := r.(iface); ok && ri.t != nil && gr.err == nil {
			gr.err = ri
		}
		return nil
	})
	wait := func(fr *frame, args []value) value {
		gr := fr.ex.groupOf(args[0])
		if gr.err != nil {
			return gr.err
		}
		return iface{}
	}
	e.reg(m+"Wait", wait)
	e.reg("(*golang.org/x/sync/errgroup.Group).Wait", wait)

	// clock: every time.Now() advances the path's clock by CLOCK_STEP_S seconds
	// (harness parameter, default 0: time stands still)
	e.reg("time.Now", func(fr *frame, args []value) value {
		ex := fr.ex
		step := int64(ex.eng.Params["CLOCK_STEP_S"]) * 1e9
		now := ex.clockNs() + step
		ex.extra["clock"] = now
		t := zero(fr.fn.Signature.Results().At(0).Type()).(structure)
		t[1] = now
		return t
	})
	e.reg("time.Unix", func(fr *frame, args []value) value {
		t := zero(fr.fn.Signature.Results().At(0).Type()).(structure)
		t[1] = fr.ex.asInt64(args[0])*1e9 + fr.ex.asInt64(args[1])
		return t
	})
	e.reg("(time.Time).UTC", func(fr *frame, args []value) value { return args[0] })
	e.reg("(time.Time).Unix", func(fr *frame, args []value) value { return timeExt(args[0]) / 1e9 })
	e.reg("(time.Time).UnixNano", func(fr *frame, args []value) value { return timeExt(args[0]) })
	e.reg("(time.Time).Nanosecond", func(fr *frame, args []value) value { return int(timeExt(args[0]) % 1e9) })
	e.reg("time.Since", func(fr *frame, args []value) value {
		return concreteOf(uint64(fr.ex.clockNs()-timeExt(args[0])), types.Int64)
	})
	e.reg("(time.Time).Sub", func(fr *frame, args []value) value {
		return concreteOf(uint64(timeExt(args[0])-timeExt(args[1])), types.Int64)
	})
	e.reg("(time.Time).IsZero", func(fr *frame, args []value) value { return timeExt(args[0]) == 0 })
	e.reg("(time.Time).Before", func(fr *frame, args []value) value { return timeExt(args[0]) < timeExt(args[1]) })
	e.reg("(time.Time).After", func(fr *frame, args []value) value { return timeExt(args[0]) > timeExt(args[1]) })
}
