package interp

// crypto/sha1 and encoding/hex over possibly symbolic bytes.
//
// SHA-1 of concrete input is the real SHA-1. For symbolic input the digest is
// 20 fresh symbolic bytes, functionally consistent (the same input term list
// gives the same digest) and — when Cfg.InjectiveHash is set — constrained to
// be injective against every other symbolic digest of the path (collision
// resistance as an assumption).

import (
	"crypto/sha1"
	"fmt"
	"go/types"
)

type shaState struct {
	buf []value
}

type shaDigest struct {
	in  []value
	out []value
}

var engHashType *engType

func init() {
	engHashType = newEngType("engSHA1", types.NewPointer(types.Typ[types.Int]), map[string]engMethod{
		"Write": func(fr *frame, recv value, args []value) value {
			st := recv.(*opaque).p.(*shaState)
			b := args[0].([]value)
			st.buf = append(st.buf, b...)
			return tuple{len(b), iface{}}
		},
		"Sum": func(fr *frame, recv value, args []value) value {
			st := recv.(*opaque).p.(*shaState)
			prefix, _ := args[0].([]value)
			d := fr.ex.sha1Of(st.buf)
			out := make([]value, 0, len(prefix)+20)
			out = append(out, prefix...)
			out = append(out, d...)
			return out
		},
		"Reset": func(fr *frame, recv value, args []value) value {
			recv.(*opaque).p.(*shaState).buf = nil
			return nil
		},
		"Size":      func(fr *frame, recv value, args []value) value { return 20 },
		"BlockSize": func(fr *frame, recv value, args []value) value { return 64 },
	})
}

func (ex *Exec) sha1Of(in []value) []value {
	if bs, ok := bytesOfConcrete(in); ok {
		sum := sha1.Sum(bs)
		return valuesOfBytes(sum[:])
	}
	var digests []*shaDigest
	if d, ok := ex.extra["sha1"]; ok {
		digests = d.([]*shaDigest)
	}
	for _, d := range digests {
		if len(d.in) == len(in) && bytesEqTerm(d.in, in).IsTrue() {
			return d.out
		}
	}
	n := len(digests)
	out := make([]value, 20)
	for i := range out {
		out[i] = sym{Var(fmt.Sprintf("sha1#%d[%d]", n, i), 8), types.Uint8}
	}
	nd := &shaDigest{in: append([]value(nil), in...), out: out}
	if ex.eng.Cfg.InjectiveHash {
		for _, d := range digests {
			// equal inputs <=> equal digests
			ex.pushPC(Eq(bytesEqTerm(d.in, in), bytesEqTerm(d.out, out)))
		}
		ex.res.Bounds["sha1"] = "uninterpreted, functional and injective (collision resistance assumed)"
	} else {
		ex.res.Bounds["sha1"] = "uninterpreted on symbolic input (fresh digest bytes, functionally consistent)"
	}
	ex.extra["sha1"] = append(digests, nd)
	return out
}

func hexDigit(n *Term) *Term {
	// n is an 8-bit term < 16
	return Ite(Bin("bvult", n, BV(8, 10)), Bin("bvadd", n, BV(8, '0')), Bin("bvadd", n, BV(8, 'a'-10)))
}

func registerHashStubs(e *Engine) {
	e.reg("crypto/sha1.New", func(fr *frame, args []value) value {
		return iface{t: engHashType.named, v: &opaque{kind: "sha1", p: &shaState{}}}
	})
	e.reg("crypto/sha1.Sum", func(fr *frame, args []value) value {
		d := fr.ex.sha1Of(args[0].([]value))
		return array(d)
	})
	e.reg("encoding/hex.EncodeToString", func(fr *frame, args []value) value {
		b := args[0].([]value)
		out := make([]value, 0, 2*len(b))
		for _, x := range b {
			t := termOf(x)
			hi := Bin("bvlshr", t, BV(8, 4))
			lo := Bin("bvand", t, BV(8, 15))
			out = append(out, mkval(hexDigit(hi), types.Uint8), mkval(hexDigit(lo), types.Uint8))
		}
		return mkstr(out)
	})
}
