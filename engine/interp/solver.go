package interp

// Persistent solver processes (z3 -in / cvc5 --incremental). One process per
// worker; every query is a self-contained push/pop block.

import (
	"bufio"
	"fmt"
	"io"
	"os"
	"os/exec"
	"strconv"
	"strings"
	"sync/atomic"
	"time"
)

var dumpCounter int64

type Result int

const (
	Unsat Result = iota
	Sat
	Unknown
)

func (r Result) String() string { return [...]string{"unsat", "sat", "unknown"}[r] }

type SolverStats struct {
	Queries  int64
	Sat      int64
	Unsat    int64
	Unknown  int64
	NanosSum int64
	Fallbacks int64
}

type Solver struct {
	kind    string
	cmd     *exec.Cmd
	in      io.WriteCloser
	out     *bufio.Reader
	stats   *SolverStats
	timeout time.Duration
	dead    bool
	LogFile io.Writer
	oneShot   bool
	timeoutMs int
}

func (s *Solver) checkOneShot(asserts []*Term, wantModel bool) (Result, Model, error) {
	script, vars := Script(asserts, wantModel)
	t0 := time.Now()
	defer func() {
		atomic.AddInt64(&s.stats.Queries, 1)
		atomic.AddInt64(&s.stats.NanosSum, int64(time.Since(t0)))
	}()
	var sb strings.Builder
	sb.WriteString("(set-logic ALL)\n")
	sb.WriteString(strings.TrimPrefix(script, "(push 1)\n"))
	sb.WriteString("(echo \"CHK\")\n")
	if wantModel && len(vars) > 0 {
		sb.WriteString("(get-value (")
		for _, v := range vars {
			sb.WriteString(quote(v))
			sb.WriteByte(' ')
		}
		sb.WriteString("))\n")
	}
	argv := solverArgv(s.kind, s.timeoutMs)
	// drop --incremental for the one-shot run
	var av []string
	for _, a := range argv[1:] {
		if a != "--incremental" {
			av = append(av, a)
		}
	}
	cmd := exec.Command(argv[0], av...)
	cmd.Stdin = strings.NewReader(sb.String())
	wd := time.AfterFunc(2*s.timeout+3*time.Second, func() {
		if cmd.Process != nil {
			cmd.Process.Kill()
		}
	})
	out, _ := cmd.CombinedOutput()
	wd.Stop()
	text := string(out)
	parts := strings.SplitN(text, "CHK", 2)
	res := Unknown
	var errline string
	for _, l := range strings.Split(parts[0], "\n") {
		l = strings.TrimSpace(l)
		switch {
		case l == "sat":
			res = Sat
		case l == "unsat":
			res = Unsat
		case strings.HasPrefix(l, "(error"):
			errline = l
		}
	}
	if (res == Unknown || errline != "") && os.Getenv("VERIF_DUMP") != "" {
		n := atomic.AddInt64(&dumpCounter, 1)
		os.WriteFile(fmt.Sprintf("%s/unknown-%d.smt2", os.Getenv("VERIF_DUMP"), n), []byte(script), 0o644)
	}
	if errline != "" {
		atomic.AddInt64(&s.stats.Unknown, 1)
		return Unknown, nil, fmt.Errorf("solver error: %s", errline)
	}
	var model Model
	if res == Sat {
		model = Model{}
		if wantModel && len(vars) > 0 && len(parts) == 2 {
			v := strings.TrimSpace(strings.TrimPrefix(strings.TrimSpace(parts[1]), "\""))
			m, err := parseValues(v)
			if err != nil {
				atomic.AddInt64(&s.stats.Unknown, 1)
				return Unknown, nil, err
			}
			model = m
		}
	}
	switch res {
	case Sat:
		atomic.AddInt64(&s.stats.Sat, 1)
	case Unsat:
		atomic.AddInt64(&s.stats.Unsat, 1)
	default:
		atomic.AddInt64(&s.stats.Unknown, 1)
	}
	return res, model, nil
}

func solverArgv(kind string, timeoutMs int) []string {
	switch kind {
	case "z3":
		return []string{"z3", "-in", fmt.Sprintf("-t:%d", timeoutMs)}
	case "z3-new":
		return []string{"z3-new", "-in", fmt.Sprintf("-t:%d", timeoutMs)}
	case "cvc5":
		return []string{"cvc5", "--incremental", "--produce-models", "--lang", "smt2", fmt.Sprintf("--tlimit-per=%d", timeoutMs)}
	case "cvc5-int":
		return []string{"cvc5", "--incremental", "--produce-models", "--solve-bv-as-int=sum", "--lang", "smt2", fmt.Sprintf("--tlimit-per=%d", timeoutMs)}
	}
	panic("unknown solver kind " + kind)
}

func NewSolver(kind string, timeoutMs int, stats *SolverStats) (*Solver, error) {
	if strings.HasPrefix(kind, "cvc5") {
		// cvc5 degrades badly over many push/pop rounds with int-blasting
		// (measured: queries that take 0.03 s in a fresh process time out at
		// 20 s after a few dozen rounds), so each query gets a fresh process.
		return &Solver{kind: kind, stats: stats, timeout: time.Duration(timeoutMs) * time.Millisecond, oneShot: true, timeoutMs: timeoutMs}, nil
	}
	argv := solverArgv(kind, timeoutMs)
	cmd := exec.Command(argv[0], argv[1:]...)
	in, err := cmd.StdinPipe()
	if err != nil {
		return nil, err
	}
	outp, err := cmd.StdoutPipe()
	if err != nil {
		return nil, err
	}
	cmd.Stderr = cmd.Stdout
	if err := cmd.Start(); err != nil {
		return nil, err
	}
	s := &Solver{kind: kind, cmd: cmd, in: in, out: bufio.NewReaderSize(outp, 1<<16), stats: stats, timeout: time.Duration(timeoutMs) * time.Millisecond}
	if strings.HasPrefix(kind, "cvc5") {
		io.WriteString(in, "(set-logic ALL)\n")
	}
	return s, nil
}

func (s *Solver) resetMode() bool { return strings.HasPrefix(s.kind, "z3") && os.Getenv("VERIF_Z3_PUSHPOP") == "" }

func (s *Solver) endQuery() string {
	if s.resetMode() {
		return "(reset)\n"
	}
	return "(pop 1)\n"
}

func (s *Solver) Close() {
	if s == nil || s.dead || s.oneShot {
		return
	}
	s.dead = true
	io.WriteString(s.in, "(exit)\n")
	s.in.Close()
	done := make(chan struct{})
	go func() { s.cmd.Wait(); close(done) }()
	select {
	case <-done:
	case <-time.After(2 * time.Second):
		s.cmd.Process.Kill()
	}
}

func (s *Solver) readUntil(marker string) ([]string, error) {
	var lines []string
	for {
		line, err := s.out.ReadString('\n')
		if err != nil {
			return lines, err
		}
		line = strings.TrimSpace(line)
		if line == marker || line == `"`+marker+`"` {
			return lines, nil
		}
		if line != "" {
			lines = append(lines, line)
		}
	}
}

// Check decides the conjunction of asserts. With wantModel and a sat answer
// the model of every declared variable is returned. Any "(error" line makes
// the answer Unknown.
func (s *Solver) Check(asserts []*Term, wantModel bool) (Result, Model, error) {
	if s.oneShot {
		return s.checkOneShot(asserts, wantModel)
	}
	if s.dead {
		return Unknown, nil, fmt.Errorf("solver dead")
	}
	script, vars := Script(asserts, wantModel)
	t0 := time.Now()
	defer func() {
		atomic.AddInt64(&s.stats.Queries, 1)
		atomic.AddInt64(&s.stats.NanosSum, int64(time.Since(t0)))
	}()
	if s.LogFile != nil {
		io.WriteString(s.LogFile, script)
	}
	if d := os.Getenv("VERIF_DUMPALL"); d != "" {
		n := atomic.AddInt64(&dumpCounter, 1)
		os.WriteFile(fmt.Sprintf("%s/q-%06d.smt2", d, n), []byte(script), 0o644)
	}
	if s.resetMode() {
		// no push/pop: a check-sat outside any scope uses z3's tactic-based solver, and
		// (reset) between queries keeps the process from degrading (measured: push/pop
		// rounds made 1 s queries take 4 s and more after ~150 rounds)
		script = strings.TrimPrefix(script, "(push 1)\n")
	}
	if _, err := io.WriteString(s.in, script+"(echo \"CHK\")\n"); err != nil {
		s.dead = true
		return Unknown, nil, err
	}
	// hard deadline: the soft per-query limit (-t) is not honoured inside some
	// preprocessing phases; a solver that overruns it by far is killed, the query
	// is answered unknown and the next query gets a fresh process
	wd := time.AfterFunc(2*s.timeout+3*time.Second, func() {
		if os.Getenv("VERIF_VERBOSE") != "" {
			fmt.Fprintf(os.Stderr, "  [solver] %s overran its %v limit: killed\n", s.kind, s.timeout)
		}
		s.cmd.Process.Kill()
	})
	lines, err := s.readUntil("CHK")
	wd.Stop()
	if err != nil {
		s.dead = true
		go s.cmd.Wait()
		return Unknown, nil, fmt.Errorf("solver died or was killed at the hard deadline: %v (%v)", err, lines)
	}
	res := Unknown
	var errline string
	for _, l := range lines {
		switch {
		case l == "sat":
			res = Sat
		case l == "unsat":
			res = Unsat
		case l == "unknown":
			res = Unknown
		case strings.HasPrefix(l, "(error"):
			errline = l
		}
	}
	if (res == Unknown || errline != "") && os.Getenv("VERIF_DUMP") != "" {
		n := atomic.AddInt64(&dumpCounter, 1)
		os.WriteFile(fmt.Sprintf("%s/unknown-%d.smt2", os.Getenv("VERIF_DUMP"), n), []byte(script), 0o644)
	}
	if errline != "" {
		io.WriteString(s.in, s.endQuery())
		atomic.AddInt64(&s.stats.Unknown, 1)
		return Unknown, nil, fmt.Errorf("solver error: %s", errline)
	}
	var model Model
	if res == Sat && wantModel && len(vars) > 0 {
		var sb strings.Builder
		sb.WriteString("(get-value (")
		for _, v := range vars {
			sb.WriteString(quote(v))
			sb.WriteByte(' ')
		}
		sb.WriteString("))\n(echo \"VAL\")\n")
		io.WriteString(s.in, sb.String())
		vl, err := s.readUntil("VAL")
		if err != nil {
			s.dead = true
			return Unknown, nil, fmt.Errorf("solver died in get-value: %v", err)
		}
		model, err = parseValues(strings.Join(vl, " "))
		if err != nil {
			io.WriteString(s.in, s.endQuery())
			return Unknown, nil, err
		}
	} else if res == Sat {
		model = Model{}
	}
	io.WriteString(s.in, s.endQuery())
	switch res {
	case Sat:
		atomic.AddInt64(&s.stats.Sat, 1)
	case Unsat:
		atomic.AddInt64(&s.stats.Unsat, 1)
	default:
		atomic.AddInt64(&s.stats.Unknown, 1)
	}
	return res, model, nil
}

// parseValues parses "((|a| #x01) (|b| true) (c (_ bv5 64)))".
func parseValues(s string) (Model, error) {
	toks := tokenize(s)
	m := Model{}
	i := 0
	if i >= len(toks) || toks[i] != "(" {
		return nil, fmt.Errorf("bad get-value output: %q", s)
	}
	i++
	for i < len(toks) && toks[i] == "(" {
		i++
		name := toks[i]
		i++
		name = strings.Trim(name, "|")
		var val uint64
		if toks[i] == "(" {
			// (_ bvN W)
			if toks[i+1] != "_" || !strings.HasPrefix(toks[i+2], "bv") {
				return nil, fmt.Errorf("bad value for %s in %q", name, s)
			}
			v, err := strconv.ParseUint(toks[i+2][2:], 10, 64)
			if err != nil {
				return nil, err
			}
			val = v
			i += 5
		} else {
			t := toks[i]
			i++
			switch {
			case t == "true":
				val = 1
			case t == "false":
				val = 0
			case strings.HasPrefix(t, "#x"):
				v, err := strconv.ParseUint(t[2:], 16, 64)
				if err != nil {
					return nil, err
				}
				val = v
			case strings.HasPrefix(t, "#b"):
				v, err := strconv.ParseUint(t[2:], 2, 64)
				if err != nil {
					return nil, err
				}
				val = v
			default:
				return nil, fmt.Errorf("bad value token %q for %s", t, name)
			}
		}
		if toks[i] != ")" {
			return nil, fmt.Errorf("expected ) in %q", s)
		}
		i++
		m[name] = val
	}
	return m, nil
}

func tokenize(s string) []string {
	var toks []string
	i := 0
	for i < len(s) {
		c := s[i]
		switch {
		case c == ' ' || c == '\t' || c == '\n' || c == '\r':
			i++
		case c == '(' || c == ')':
			toks = append(toks, string(c))
			i++
		case c == '|':
			j := strings.IndexByte(s[i+1:], '|')
			toks = append(toks, s[i:i+j+2])
			i += j + 2
		default:
			j := i
			for j < len(s) && !strings.ContainsRune(" \t\n\r()", rune(s[j])) {
				j++
			}
			toks = append(toks, s[i:j])
			i = j
		}
	}
	return toks
}
