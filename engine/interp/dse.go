package interp

// Path exploration: re-execution with a decision prefix, solver-decided
// branch feasibility, assertion discharge.

import (
	"fmt"
	"go/types"
	"os"
	"sort"
	"strings"
	"sync"
	"sync/atomic"
	"time"

	"golang.org/x/tools/go/ssa"
)

type Config struct {
	Solver        string // z3 | z3-new | cvc5 | cvc5-int
	Fallback      []string
	TimeoutMs     int
	MaxSteps      int
	MaxDepth      int
	MaxDecisions  int
	MaxAlloc      int
	MaxConcretize int
	MaxPaths      int
	Workers       int
	Trace         bool
	NoMerge       bool
	InjectiveHash bool
	BudgetIsViolation bool
	InitPkgs      []string // package paths whose init is run (leniently) before each path
	StopAtFirst   bool     // stop exploring a harness after its first violation of each label
	Verbose       bool
}

func DefaultConfig() Config {
	return Config{Solver: "z3", TimeoutMs: 20000, MaxSteps: 20_000_000, MaxDepth: 400, MaxDecisions: 4000,
		MaxAlloc: 1 << 20, MaxConcretize: 64, MaxPaths: 2_000_000, Workers: 16}
}

type Engine struct {
	Cfg    Config
	Ld     *Loaded
	prog   *ssa.Program
	Stats  SolverStats
	stubs  map[string]externalFn
	symPkg string
	MaxDigits int
	Params    map[string]int

	mu        sync.Mutex
	visited     map[string]int
	visitedHits int
	funcsSeen map[string]bool
	stubsSeen map[string]int
}

type externalFn func(fr *frame, args []value) value

// Input is one symbolic input of a path, in creation order.
type Input struct {
	Name string
	Kind string // u64,i64,u32,i32,int,u8,bool,choice,bytes
	Vars []string
	Conc int64 // for choice
	N    int   // bytes: length
}

type Observation struct {
	Name string
	Val  value
}

type Violation struct {
	Harness   string
	Label     string
	Kind      string // assert | panic
	Msg       string
	Model     Model
	Inputs    []Input
	Decisions []int
	Notes     []string
}

type PathResult struct {
	Decisions    []int
	Outcome      string // ok | assume | budget | unsupported | violation-stop | panic
	Msg          string
	Steps        int
	Obligations  int // assertion queries sent to the solver
	Discharged   int
	ConcreteAsrt int
	Reached      map[string]bool
	Violations   []*Violation
	Inputs       []Input
	Model        Model
	Obs          []Observation
	PC           int
	Bounds       map[string]string
	Pruned       bool // ended by visited-state pruning: the native run has no such cut, not comparable
}

type workItem struct {
	prefix []int
	model  Model
}

// Exec is the state of one path.
type Exec struct {
	eng     *Engine
	prog    *ssa.Program
	solvers *SolverSet
	globals map[*ssa.Global]*value
	harness string

	prefix     []int
	cursor     int
	decisions  []int
	pc         []*Term
	pcKeys     map[string]bool
	pcLemma    []bool // pc[i] is a discharged assertion (implied by the rest)
	model      Model
	modelValid bool
	newItems   []workItem

	steps     int
	pending   []pendingAssert
	merges    int
	initSteps int
	names     map[string]int
	inputs    []Input
	obs       []Observation
	res       *PathResult
	notes     []string
	extra     map[string]interface{} // per-path state of stubs

	funcsLocal map[*ssa.Function]bool
	stubsLocal map[string]int
	inited     map[*ssa.Package]bool
}

func NewEngine(ld *Loaded, cfg Config) *Engine {
	e := &Engine{Cfg: cfg, Ld: ld, prog: ld.Prog, stubs: map[string]externalFn{}, funcsSeen: map[string]bool{}, stubsSeen: map[string]int{}, symPkg: RepoModule + "/zz_verifsym"}
	registerStubs(e)
	return e
}

func (ex *Exec) noteFunc(fn *ssa.Function) {
	if fn.Pkg == nil && fn.Origin() == nil {
		return
	}
	ex.funcsLocal[fn] = true
}

func (ex *Exec) noteStub(name string) { ex.stubsLocal[name]++ }

// globalAddr is reached on the first access to a global of a package on this
// path: the package's globals are allocated and its init is run (leniently)
// if the package was loaded from source; globals of bodyless packages are
// poison except for the known sentinels.
func (ex *Exec) globalAddr(g *ssa.Global) *value {
	pkg := g.Pkg
	if ex.inited[pkg] {
		panic(fmt.Sprintf("global %s missing after init", g))
	}
	ex.inited[pkg] = true
	hasSrc := ex.eng.Ld.Pkgs[pkg.Pkg.Path()] != nil
	for _, m := range pkg.Members {
		if gv, ok := m.(*ssa.Global); ok {
			var cell value
			if hasSrc {
				cell = zero(mustDeref(gv.Type()))
			} else if v, ok := ex.knownGlobal(gv); ok {
				cell = v
			} else {
				cell = poison{"global " + gv.String() + " of bodyless package"}
			}
			c := cell
			ex.globals[gv] = &c
		}
	}
	if hasSrc {
		saved := ex.steps
		ex.runInit(pkg)
		ex.initSteps += ex.steps - saved
		ex.steps = saved
	}
	return ex.globals[g]
}

// pushPC appends c to the path condition, skipping structural duplicates.
func (ex *Exec) pushPC(c *Term) { ex.pushPCx(c, false) }

func (ex *Exec) pushPCx(c *Term, lemma bool) {
	if k := c.key(); k != "" {
		if ex.pcKeys[k] {
			return
		}
		ex.pcKeys[k] = true
	}
	ex.pc = append(ex.pc, c)
	ex.pcLemma = append(ex.pcLemma, lemma)
}

// implied reports whether c (or its negation) is syntactically in the path condition.
func (ex *Exec) implied(c *Term) (val bool, ok bool) {
	if k := c.key(); k != "" && ex.pcKeys[k] {
		return true, true
	}
	if k := Not(c).key(); k != "" && ex.pcKeys[k] {
		return false, true
	}
	return false, false
}

func (ex *Exec) addPC(c *Term) {
	ex.pushPC(c)
	if ex.modelValid {
		v, ok := Eval(c, ex.model)
		if !ok || v != 1 {
			ex.modelValid = false
		}
	}
}

func (ex *Exec) query(extra *Term, wantModel bool) (Result, Model) {
	build := func(withLemmas bool) []*Term {
		as := make([]*Term, 0, len(ex.pc)+1)
		for i, c := range ex.pc {
			if withLemmas || !ex.pcLemma[i] {
				as = append(as, c)
			}
		}
		if extra != nil {
			as = append(as, extra)
		}
		return as
	}
	hasLemmas := false
	for _, l := range ex.pcLemma {
		if l {
			hasLemmas = true
			break
		}
	}
	r, m, err := ex.solvers.Check(build, hasLemmas, wantModel)
	if err != nil || r == Unknown {
		msg := "solver unknown/timeout"
		if err != nil {
			msg = err.Error()
		}
		panic(unsupported{"solver: " + msg})
	}
	return r, m
}

// quickQuery tries the primary solver only, with the short cap; Unknown is a
// legitimate answer here (the caller falls back to individual queries).
func (ex *Exec) quickQuery(extra *Term) Result {
	as := make([]*Term, 0, len(ex.pc)+1)
	for i, c := range ex.pc {
		if !ex.pcLemma[i] {
			as = append(as, c)
		}
	}
	as = append(as, extra)
	cfg := ex.eng.Cfg
	short := 2000
	if cfg.TimeoutMs < short {
		short = cfg.TimeoutMs
	}
	s, err := ex.solvers.get(cfg.Solver, short)
	if err != nil {
		return Unknown
	}
	r, _, err := s.Check(as, false)
	if err != nil {
		return Unknown
	}
	return r
}

// SolverSet is a worker's portfolio: the primary solver first on the path
// condition without implied lemmas (short cap), then with them, then the
// fallback solvers, then the primary with the full cap. All formulations are
// equivalent; the first definite answer is taken.
type SolverSet struct {
	eng     *Engine
	solvers map[string]*Solver
}

func (ss *SolverSet) get(kind string, timeoutMs int) (*Solver, error) {
	key := fmt.Sprintf("%s/%d", kind, timeoutMs)
	if s, ok := ss.solvers[key]; ok && !s.dead {
		return s, nil
	}
	s, err := NewSolver(kind, timeoutMs, &ss.eng.Stats)
	if err != nil {
		return nil, err
	}
	ss.solvers[key] = s
	return s, nil
}

func (ss *SolverSet) Close() {
	for _, s := range ss.solvers {
		s.Close()
	}
}

type attempt struct {
	kind    string
	ms      int
	lemmas  bool
}

func (ss *SolverSet) Check(build func(bool) []*Term, hasLemmas bool, wantModel bool) (Result, Model, error) {
	cfg := ss.eng.Cfg
	short := 4000
	if cfg.TimeoutMs < short {
		short = cfg.TimeoutMs
	}
	var plan []attempt
	plan = append(plan, attempt{cfg.Solver, short, false})
	if hasLemmas {
		plan = append(plan, attempt{cfg.Solver, short, true})
	}
	for _, fb := range cfg.Fallback {
		plan = append(plan, attempt{fb, cfg.TimeoutMs, false})
	}
	if cfg.TimeoutMs > short {
		plan = append(plan, attempt{cfg.Solver, cfg.TimeoutMs, false})
		if hasLemmas {
			plan = append(plan, attempt{cfg.Solver, cfg.TimeoutMs, true})
		}
	}
	var lastErr error
	for i, a := range plan {
		s, err := ss.get(a.kind, a.ms)
		if err != nil {
			lastErr = err
			continue
		}
		r, m, err := s.Check(build(a.lemmas), wantModel)
		if err == nil && r != Unknown {
			if i > 0 {
				atomic.AddInt64(&ss.eng.Stats.Fallbacks, 1)
			}
			return r, m, nil
		}
		if err != nil {
			lastErr = err
		}
	}
	return Unknown, nil, lastErr
}

func (ex *Exec) recordDecision(d int) {
	ex.decisions = append(ex.decisions, d)
	if len(ex.decisions) > ex.eng.Cfg.MaxDecisions {
		panic(pathEnd{"budget", fmt.Sprintf("decision budget %d exceeded (unwinding failure)", ex.eng.Cfg.MaxDecisions)})
	}
}

// decide returns the truth value chosen for c on this path, forking when both are feasible.
func (ex *Exec) decide(c *Term) bool {
	if c.IsConst() {
		return c.C == 1
	}
	if v, ok := ex.implied(c); ok {
		return v
	}
	if ex.cursor < len(ex.prefix) {
		d := ex.prefix[ex.cursor]
		ex.cursor++
		ex.recordDecision(d)
		if d == 1 {
			ex.pushPC(c)
		} else {
			ex.pushPC(Not(c))
		}
		if ex.cursor == len(ex.prefix) {
			ex.modelValid = ex.model != nil
		}
		return d == 1
	}
	tKnown, fKnown := false, false
	if ex.modelValid {
		if v, ok := Eval(c, ex.model); ok {
			if v == 1 {
				tKnown = true
			} else {
				fKnown = true
			}
		}
	}
	var tFeas, fFeas bool
	var fModel Model
	switch {
	case tKnown:
		tFeas = true
		r, m := ex.query(Not(c), true)
		fFeas, fModel = r == Sat, m
	case fKnown:
		fFeas = true
		r, m := ex.query(c, true)
		if r == Sat {
			// take the true side with its model; the false side keeps the old model
			fModel = ex.model
			ex.model, ex.modelValid = m, true
			tFeas = true
		}
	default:
		r, m := ex.query(c, true)
		if r == Sat {
			tFeas = true
			ex.model, ex.modelValid = m, true
			r2, m2 := ex.query(Not(c), true)
			fFeas, fModel = r2 == Sat, m2
		} else {
			fFeas = true
			r2, m2 := ex.query(Not(c), true)
			if r2 != Sat {
				panic(pathEnd{"assume", "path condition infeasible"})
			}
			ex.model, ex.modelValid = m2, true
		}
	}
	if tFeas {
		if fFeas {
			alt := make([]int, len(ex.decisions)+1)
			copy(alt, ex.decisions)
			alt[len(ex.decisions)] = 0
			ex.newItems = append(ex.newItems, workItem{prefix: alt, model: fModel})
		}
		ex.recordDecision(1)
		ex.pushPC(c)
		return true
	}
	if !fFeas {
		panic(pathEnd{"assume", "path condition infeasible"})
	}
	ex.recordDecision(0)
	ex.pushPC(Not(c))
	if fKnown {
		// model still valid
	}
	return false
}

// anyValue returns some feasible value of t under the path condition.
func (ex *Exec) anyValue(t *Term) (uint64, bool) {
	if ex.cursor < len(ex.prefix) {
		// replaying: the value is implied by the recorded decision; use a fresh query
	}
	if ex.modelValid {
		if v, ok := Eval(t, ex.model); ok {
			return v, true
		}
	}
	r, m := ex.query(nil, true)
	if r != Sat {
		return 0, false
	}
	ex.model, ex.modelValid = m, true
	v, ok := Eval(t, m)
	if !ok {
		panic(unsupported{"cannot evaluate term with uninterpreted function for concretization"})
	}
	return v, true
}

// choose picks an alternative in [0,n), forking over all of them.
func (ex *Exec) choose(n int) int {
	if n <= 0 {
		panic(pathEnd{"assume", "choice over empty set"})
	}
	if ex.cursor < len(ex.prefix) {
		d := ex.prefix[ex.cursor]
		ex.cursor++
		ex.recordDecision(d)
		if ex.cursor == len(ex.prefix) {
			ex.modelValid = ex.model != nil
		}
		return d
	}
	for i := n - 1; i >= 1; i-- {
		alt := make([]int, len(ex.decisions)+1)
		copy(alt, ex.decisions)
		alt[len(ex.decisions)] = i
		ex.newItems = append(ex.newItems, workItem{prefix: alt, model: ex.modelIfValid()})
	}
	ex.recordDecision(0)
	return 0
}

func (ex *Exec) modelIfValid() Model {
	if ex.modelValid {
		return ex.model
	}
	return nil
}

// assume constrains the path; an infeasible assumption ends it silently.
func (ex *Exec) assume(c *Term) {
	if !(c.IsConst() && c.C == 1) {
		ex.flush()
	}
	if c.IsConst() {
		if c.C == 0 {
			panic(pathEnd{"assume", "assumption false"})
		}
		return
	}
	if v, ok := ex.implied(c); ok {
		if !v {
			panic(pathEnd{"assume", "assumption contradicts path condition"})
		}
		return
	}
	if ex.cursor < len(ex.prefix) {
		d := ex.prefix[ex.cursor]
		ex.cursor++
		ex.recordDecision(d)
		ex.pushPC(c)
		if ex.cursor == len(ex.prefix) {
			ex.modelValid = ex.model != nil
		}
		return
	}
	ok := false
	if ex.modelValid {
		if v, eok := Eval(c, ex.model); eok && v == 1 {
			ok = true
		}
	}
	if !ok {
		r, m := ex.query(c, true)
		if r != Sat {
			panic(pathEnd{"assume", "assumption infeasible"})
		}
		ex.model, ex.modelValid = m, true
	}
	ex.recordDecision(1)
	ex.pushPC(c)
}

// assert discharges c under the path condition or records a violation.
func (ex *Exec) assert(c *Term, label string) {
	if c.IsConst() {
		ex.res.ConcreteAsrt++
		if c.C == 1 {
			return
		}
		// concrete failure: any model of the path condition is a witness
		ex.flush()
		m := ex.modelIfValid()
		if m == nil {
			if ex.cursor < len(ex.prefix) {
				// replaying a prefix that already reported this
			}
			r, mm := ex.query(nil, true)
			if r != Sat {
				panic(pathEnd{"assume", "path infeasible at concrete assertion failure"})
			}
			m = mm
			ex.model, ex.modelValid = mm, true
		}
		ex.violation("assert", label, "assertion failed (concrete on this path)", m)
		panic(pathEnd{"stop", "assertion " + label + " failed"})
	}
	if v, ok := ex.implied(c); ok && v {
		ex.res.ConcreteAsrt++
		return
	}
	// deferred: decided at the next flush point under the (stronger) path
	// condition reached there. Branch decisions partition the inputs, so every
	// input violating c reaches a flush point on some explored path.
	ex.pending = append(ex.pending, pendingAssert{c, label})
}

type pendingAssert struct {
	c     *Term
	label string
}

// flush decides all pending assertions with one query (and one per assertion
// only when that query is satisfiable).
func (ex *Exec) flush() {
	if len(ex.pending) == 0 {
		return
	}
	pend := ex.pending
	ex.pending = nil
	if ex.cursor < len(ex.prefix) {
		d := ex.prefix[ex.cursor]
		ex.cursor++
		ex.recordDecision(d)
		for _, p := range pend {
			ex.pushPCx(p.c, true)
		}
		if ex.cursor == len(ex.prefix) {
			ex.modelValid = ex.model != nil
		}
		return
	}
	ex.res.Obligations += len(pend)
	negs := make([]*Term, len(pend))
	for i, p := range pend {
		negs[i] = Not(p.c)
	}
	r := Unknown
	if len(pend) > 1 {
		r = ex.quickQuery(Or(negs...))
	}
	if r == Unsat {
		ex.res.Discharged += len(pend)
		ex.recordDecision(1)
		for _, p := range pend {
			ex.pushPCx(p.c, true)
		}
		return
	}
	ex.recordDecision(1)
	for _, p := range pend {
		r, m := ex.query(Not(p.c), true)
		if r == Unsat {
			ex.res.Discharged++
			ex.pushPCx(p.c, true)
			continue
		}
		ex.violation("assert", p.label, "assertion can be false", m)
		// continue on the side where it holds, if any
		ok := false
		if ex.modelValid {
			if v, eok := Eval(p.c, ex.model); eok && v == 1 {
				ok = true
			}
		}
		if !ok {
			r2, m2 := ex.query(p.c, true)
			if r2 != Sat {
				panic(pathEnd{"stop", "assertion " + p.label + " fails on every input of this path"})
			}
			ex.model, ex.modelValid = m2, true
		}
		ex.pushPC(p.c)
	}
}

func (ex *Exec) violation(kind, label, msg string, m Model) {
	v := &Violation{Harness: ex.harness, Label: label, Kind: kind, Msg: msg, Model: m,
		Inputs: append([]Input(nil), ex.inputs...), Decisions: append([]int(nil), ex.decisions...),
		Notes: append([]string(nil), ex.notes...)}
	ex.res.Violations = append(ex.res.Violations, v)
}

func (ex *Exec) freshName(name string) string {
	n := ex.names[name]
	ex.names[name] = n + 1
	return fmt.Sprintf("%s#%d", name, n)
}

// ---------------- driver ----------------

type HarnessReport struct {
	Harness      string
	Paths        int
	Outcomes     map[string]int
	Obligations  int
	Discharged   int
	ConcreteAsrt int
	Nontrivial   int
	WithAssertion int
	Reached      map[string]int
	Violations   []*Violation
	Inconclusive []string
	BudgetFails  []string
	Samples      []PathSample
	Funcs        map[string]bool
	Stubs        map[string]int
	Bounds       map[string]string
	Secs         float64
	MaxDecisions int
	OkPaths      []*PathResult // retained subset for cross-checking
}

type PathSample struct {
	Decisions string            `json:"decisions"`
	Inputs    map[string]string `json:"inputs"`
	Outcome   string            `json:"outcome"`
	Asserts   int               `json:"assertion_queries"`
}

func (e *Engine) findHarness(name string) (*ssa.Function, error) {
	for _, p := range e.Ld.Pkgs {
		if f := p.Func(name); f != nil {
			return f, nil
		}
	}
	return nil, fmt.Errorf("harness function %s not found in root packages", name)
}

// RunHarness explores all paths of the named harness function.
func (e *Engine) RunHarness(name string, keepOK int) (*HarnessReport, error) {
	fn, err := e.findHarness(name)
	if err != nil {
		return nil, err
	}
	t0 := time.Now()
	rep := &HarnessReport{Harness: name, Outcomes: map[string]int{}, Reached: map[string]int{}, Funcs: map[string]bool{}, Stubs: map[string]int{}, Bounds: map[string]string{}}
	var mu sync.Mutex
	work := []workItem{{}}
	inflight := 0
	cond := sync.NewCond(&mu)
	stop := false
	seenViol := map[string]int{}
	var wg sync.WaitGroup
	nw := e.Cfg.Workers
	if nw < 1 {
		nw = 1
	}
	for w := 0; w < nw; w++ {
		wg.Add(1)
		go func(w int) {
			defer wg.Done()
			solvers := &SolverSet{eng: e, solvers: map[string]*Solver{}}
			defer solvers.Close()
			for {
				mu.Lock()
				for len(work) == 0 && inflight > 0 && !stop {
					cond.Wait()
				}
				if stop || (len(work) == 0 && inflight == 0) {
					mu.Unlock()
					cond.Broadcast()
					return
				}
				it := work[len(work)-1]
				work = work[:len(work)-1]
				inflight++
				mu.Unlock()

				res, items, ex := e.runPath(fn, name, it, solvers)

				mu.Lock()
				inflight--
				rep.Paths++
				rep.Outcomes[res.Outcome]++
				rep.Obligations += res.Obligations
				rep.Discharged += res.Discharged
				rep.ConcreteAsrt += res.ConcreteAsrt
				if res.Obligations > 0 {
					rep.Nontrivial++
				}
				if res.Obligations+res.ConcreteAsrt > 0 {
					rep.WithAssertion++
				}
				if len(res.Decisions) > rep.MaxDecisions {
					rep.MaxDecisions = len(res.Decisions)
				}
				for t := range res.Reached {
					rep.Reached[t]++
				}
				for k, v := range res.Bounds {
					rep.Bounds[k] = v
				}
				for f := range ex.funcsLocal {
					rep.Funcs[f.String()] = true
				}
				for s, n := range ex.stubsLocal {
					rep.Stubs[s] += n
				}
				switch res.Outcome {
				case "unsupported":
					if len(rep.Inconclusive) < 20 {
						rep.Inconclusive = append(rep.Inconclusive, res.Msg)
					}
				case "budget":
					if len(rep.BudgetFails) < 20 {
						rep.BudgetFails = append(rep.BudgetFails, res.Msg)
					}
				}
				for _, v := range res.Violations {
					seenViol[v.Label]++
					if seenViol[v.Label] <= 4 {
						rep.Violations = append(rep.Violations, v)
					}
				}
				if res.Outcome == "ok" && !res.Pruned && len(rep.OkPaths) < keepOK {
					rep.OkPaths = append(rep.OkPaths, res)
				}
				if len(rep.Samples) < 6 && (res.Outcome == "ok" || len(res.Violations) > 0) {
					rep.Samples = append(rep.Samples, samplePath(res))
				}
				work = append(work, items...)
				if rep.Paths >= e.Cfg.MaxPaths {
					stop = true
					rep.BudgetFails = append(rep.BudgetFails, fmt.Sprintf("path budget %d exhausted", e.Cfg.MaxPaths))
				}
				if e.Cfg.Verbose && rep.Paths%500 == 0 {
					fmt.Fprintf(os.Stderr, "  [%s] %d paths, %d queued, %d queries\n", name, rep.Paths, len(work), e.Stats.Queries)
				}
				mu.Unlock()
				cond.Broadcast()
			}
		}(w)
	}
	wg.Wait()
	rep.Secs = time.Since(t0).Seconds()
	return rep, nil
}

func samplePath(r *PathResult) PathSample {
	s := PathSample{Outcome: r.Outcome, Asserts: r.Obligations, Inputs: map[string]string{}}
	var sb strings.Builder
	for i, d := range r.Decisions {
		if i >= 60 {
			sb.WriteString("…")
			break
		}
		fmt.Fprintf(&sb, "%d", d)
	}
	s.Decisions = sb.String()
	m := r.Model
	if len(r.Violations) > 0 {
		m = r.Violations[0].Model
		s.Outcome = "violation:" + r.Violations[0].Label
	}
	for k, v := range InputValues(r.Inputs, m) {
		s.Inputs[k] = v
	}
	return s
}

func (e *Engine) runPath(fn *ssa.Function, name string, it workItem, solvers *SolverSet) (res *PathResult, items []workItem, ex *Exec) {
	ex = &Exec{eng: e, prog: e.prog, solvers: solvers, globals: map[*ssa.Global]*value{}, harness: name,
		prefix: it.prefix, model: it.model, names: map[string]int{}, extra: map[string]interface{}{}, pcKeys: map[string]bool{},
		funcsLocal: map[*ssa.Function]bool{}, stubsLocal: map[string]int{}, inited: map[*ssa.Package]bool{}}
	if len(it.prefix) == 0 {
		ex.model = Model{}
		ex.modelValid = true
	}
	res = &PathResult{Reached: map[string]bool{}, Bounds: map[string]string{}}
	ex.res = res
	defer func() {
		r := recover()
		res.Decisions = ex.decisions
		res.Steps = ex.steps
		res.Inputs = ex.inputs
		res.Obs = ex.obs
		res.PC = len(ex.pc)
		items = ex.newItems
		switch r := r.(type) {
		case nil:
			res.Outcome = "ok"
		case pathEnd:
			res.Outcome = r.kind
			res.Msg = r.why
			if r.kind == "stop" {
				res.Outcome = "violation-stop"
			}
			if r.kind == "budget" && ex.eng.Cfg.BudgetIsViolation {
				// the path did not terminate within the step/depth budget: a candidate
				// "loops forever" violation, confirmed natively under a timeout
				m := ex.modelIfValid()
				if m == nil {
					func() {
						defer func() { recover() }()
						if rr, mm := ex.query(nil, true); rr == Sat {
							m = mm
						}
					}()
				}
				if m != nil {
					ex.violation("hang", "does-not-terminate", "step budget exceeded: "+r.why, m)
				}
			}
		case unsupported:
			res.Outcome = "unsupported"
			res.Msg = r.why
		case targetPanic:
			res.Outcome = "panic"
			res.Msg = panicString(r.v)
			m := ex.modelIfValid()
			if m == nil {
				func() {
					defer func() {
						if recover() != nil {
							m = nil
						}
					}()
					rr, mm := ex.query(nil, true)
					if rr == Sat {
						m = mm
					}
				}()
			}
			if m != nil {
				lbl := res.Msg
				if len(lbl) > 60 {
					lbl = lbl[:60]
				}
				ex.violation("panic", "panic: "+lbl, "uncaught Go panic: "+res.Msg, m)
			} else {
				res.Outcome = "unsupported"
				res.Msg = "panic path without model: " + res.Msg
			}
		default:
			panic(r)
		}
		if res.Outcome == "ok" {
			// final model for cross-checking
			m := ex.modelIfValid()
			if m == nil && len(ex.pc) > 0 {
				func() {
					defer func() { recover() }()
					rr, mm := ex.query(nil, true)
					if rr == Sat {
						m = mm
					}
				}()
			}
			res.Model = m
		}
	}()
	func() {
		defer func() {
			// decide what is still pending however the path ended (a panic
			// raised by flush itself replaces the original one only when it
			// is an engine abort)
			if r := recover(); r != nil {
				if _, isUnsup := r.(unsupported); !isUnsup {
					func() {
						defer func() {
							if r2 := recover(); r2 != nil {
								if _, ok := r2.(unsupported); ok {
									r = r2
								}
							}
						}()
						ex.flush()
					}()
				}
				panic(r)
			}
			ex.flush()
		}()
		ex.call(nil, 0, fn, nil)
	}()
	return
}

func panicString(v value) string {
	if i, ok := v.(iface); ok {
		switch x := i.v.(type) {
		case string:
			return x
		case *opaque:
			if ee, isErr := x.p.(*engError); isErr {
				if s, isStr := ee.msg.(string); isStr {
					return "error: " + s
				}
				return "error: <symbolic text>"
			}
		}
		if i.t != nil {
			return fmt.Sprintf("(%s) %v", i.t, summarize(i.v))
		}
	}
	return fmt.Sprint(summarize(v))
}

func summarize(v value) string {
	s := fmt.Sprintf("%v", v)
	if len(s) > 200 {
		s = s[:200] + "…"
	}
	return s
}

func (ex *Exec) runInit(p *ssa.Package) {
	initFn := p.Func("init")
	if initFn == nil || initFn.Blocks == nil {
		return
	}
	fr := &frame{ex: ex, fn: initFn, lenient: true}
	fr.env = make(map[ssa.Value]value)
	fr.block = initFn.Blocks[0]
	fr.locals = make([]value, len(initFn.Locals))
	for i, l := range initFn.Locals {
		fr.locals[i] = zero(mustDeref(l.Type()))
		fr.env[l] = &fr.locals[i]
	}
	func() {
		defer func() {
			if r := recover(); r != nil {
				if _, ok := r.(pathEnd); ok {
					panic(r)
				}
				ex.notes = append(ex.notes, fmt.Sprintf("init of %s stopped early: %v", p.Pkg.Path(), r))
			}
		}()
		for fr.block != nil {
			runInitFrame(fr)
		}
	}()
}

// runInitFrame is runFrame for a package init: dependency init calls are skipped.
func runInitFrame(fr *frame) {
	for {
		nonPhis := executePhis(fr)
		for _, instr := range nonPhis {
			fr.ex.steps++
			if c, ok := instr.(*ssa.Call); ok {
				if callee := c.Call.StaticCallee(); callee != nil && callee.Name() == "init" && callee.Pkg != nil && callee.Pkg != fr.fn.Pkg {
					continue // imported package's init: only configured packages are initialised
				}
				if callee := c.Call.StaticCallee(); callee != nil && strings.HasPrefix(callee.Name(), "init#") {
					pos := fr.ex.prog.Fset.Position(callee.Pos())
					if strings.HasSuffix(pos.Filename, ".pb.go") || strings.HasSuffix(pos.Filename, "_vtproto.pb.go") {
						continue // generated protobuf registration
					}
				}
			}
			if visitInstr(fr, instr) == kReturn {
				return
			}
		}
	}
}

// InputValues renders the inputs of a path under a model (for replay files).
func InputValues(inputs []Input, m Model) map[string]string {
	out := map[string]string{}
	for _, in := range inputs {
		switch in.Kind {
		case "choice":
			out[in.Name] = fmt.Sprint(in.Conc)
		case "bytes":
			var sb strings.Builder
			for _, v := range in.Vars {
				fmt.Fprintf(&sb, "%02x", m[v]&0xff)
			}
			out[in.Name] = "hex:" + sb.String()
		case "i64", "int":
			out[in.Name] = fmt.Sprint(int64(m[in.Vars[0]]))
		case "i32":
			out[in.Name] = fmt.Sprint(int32(m[in.Vars[0]]))
		case "bool":
			out[in.Name] = fmt.Sprint(m[in.Vars[0]]&1 == 1)
		default:
			out[in.Name] = fmt.Sprint(m[in.Vars[0]])
		}
	}
	return out
}

func sortedKeys[V any](m map[string]V) []string {
	ks := make([]string, 0, len(m))
	for k := range m {
		ks = append(ks, k)
	}
	sort.Strings(ks)
	return ks
}

var _ = types.Bool

// HarnessPkgPath returns the import path of the package defining the harness.
func (e *Engine) HarnessPkgPath(name string) string {
	f, err := e.findHarness(name)
	if err != nil || f.Pkg == nil {
		return ""
	}
	return f.Pkg.Pkg.Path()
}
