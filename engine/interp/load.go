package interp

// Loading of /repo (plus overlay harness files) into go/ssa. Root packages are
// loaded from source, every other dependency from export data (bodyless).

import (
	"fmt"
	"go/types"
	"os"
	"path/filepath"
	"sort"
	"strings"
	"time"

	"golang.org/x/tools/go/packages"
	"golang.org/x/tools/go/ssa"
)

type Loaded struct {
	Prog     *ssa.Program
	Pkgs     map[string]*ssa.Package // by import path (roots only)
	RootList []string
	LoadSecs float64
	Overlay  map[string][]byte
}

const RepoModule = "github.com/streamingfast/substreams"

// BuildOverlay maps /verif/harness/<rel>/file.go onto <repo>/<rel>/file.go.
func BuildOverlay(harnessDir, repoDir string) (map[string][]byte, error) {
	ov := map[string][]byte{}
	err := filepath.Walk(harnessDir, func(p string, info os.FileInfo, err error) error {
		if err != nil {
			return err
		}
		if info.IsDir() || !strings.HasSuffix(p, ".go") {
			return nil
		}
		rel, _ := filepath.Rel(harnessDir, p)
		b, err := os.ReadFile(p)
		if err != nil {
			return err
		}
		ov[filepath.Join(repoDir, rel)] = b
		return nil
	})
	return ov, err
}

func Load(repoDir string, roots []string, overlay map[string][]byte, tags string) (*Loaded, error) {
	t0 := time.Now()
	cfg := &packages.Config{
		Mode:    packages.LoadSyntax,
		Dir:     repoDir,
		Overlay: overlay,
		Env:     append(os.Environ(), "GOFLAGS=-mod=mod", "GOPROXY=off", "GOSUMDB=off", "GOTOOLCHAIN=local"),
	}
	if tags != "" {
		cfg.BuildFlags = []string{"-tags=" + tags}
	}
	pkgs, err := packages.Load(cfg, roots...)
	if err != nil {
		return nil, err
	}
	var errs []string
	for _, p := range pkgs {
		for _, e := range p.Errors {
			errs = append(errs, e.Error())
		}
	}
	if len(errs) > 0 {
		sort.Strings(errs)
		if len(errs) > 12 {
			errs = errs[:12]
		}
		return nil, fmt.Errorf("package load errors:\n  %s", strings.Join(errs, "\n  "))
	}
	prog := ssa.NewProgram(pkgs[0].Fset, ssa.InstantiateGenerics)
	ld := &Loaded{Prog: prog, Pkgs: map[string]*ssa.Package{}, Overlay: overlay}
	created := map[*types.Package]bool{}
	for _, p := range pkgs {
		if p.Types == nil || p.IllTyped {
			return nil, fmt.Errorf("package %s ill-typed", p.PkgPath)
		}
		sp := prog.CreatePackage(p.Types, p.Syntax, p.TypesInfo, true)
		ld.Pkgs[p.PkgPath] = sp
		ld.RootList = append(ld.RootList, p.PkgPath)
		created[p.Types] = true
	}
	// bodyless packages for everything reachable through imports
	var visit func(tp *types.Package)
	visit = func(tp *types.Package) {
		for _, imp := range tp.Imports() {
			if created[imp] {
				continue
			}
			created[imp] = true
			if prog.Package(imp) == nil {
				prog.CreatePackage(imp, nil, nil, true)
			}
			visit(imp)
		}
	}
	for _, p := range pkgs {
		visit(p.Types)
	}
	prog.Build()
	ld.LoadSecs = time.Since(t0).Seconds()
	return ld, nil
}
