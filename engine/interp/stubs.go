package interp

// Stub registry, engine-provided types (errors), helpers for native calls.

import (
	"fmt"
	"go/token"
	"go/types"
	"strings"

	"golang.org/x/tools/go/ssa"
)

// prefix rules: any bodyless function whose String() starts with the prefix.
type prefixStub struct {
	prefix string
	fn     func(name string) externalFn
}

var prefixStubs []prefixStub

func (e *Engine) stubFor(fn *ssa.Function, name string) externalFn {
	if s, ok := e.stubs[name]; ok {
		return s
	}
	if fn.Blocks != nil {
		return nil
	}
	for _, p := range prefixStubs {
		if strings.HasPrefix(name, p.prefix) {
			s := p.fn(name)
			return s
		}
	}
	return nil
}

func (e *Engine) reg(name string, f externalFn) { e.stubs[name] = f }

// zeroResult returns the zero value(s) of fn's results.
func zeroResult(fn *ssa.Function) value {
	res := fn.Signature.Results()
	switch res.Len() {
	case 0:
		return nil
	case 1:
		return zero(res.At(0).Type())
	}
	t := make(tuple, res.Len())
	for i := range t {
		t[i] = zero(res.At(i).Type())
	}
	return t
}

// ---------- engine types ----------

type engMethod func(fr *frame, recv value, args []value) value

type engType struct {
	named   *types.Named
	methods map[string]engMethod
}

var engTypes = map[types.Type]*engType{}

func newEngType(name string, under types.Type, methods map[string]engMethod) *engType {
	tn := types.NewTypeName(token.NoPos, nil, name, nil)
	n := types.NewNamed(tn, under, nil)
	et := &engType{named: n, methods: methods}
	engTypes[n] = et
	return et
}

// engError is the engine's error implementation (fmt.Errorf, errors.New of
// bodyless packages, sentinel errors of bodyless packages).
type engError struct {
	msg     value // string or sstring
	wrapped value // iface or nil
	id      string
}

var engErrType *engType

func init() {
	engErrType = newEngType("engError", types.NewPointer(types.Typ[types.Int]), map[string]engMethod{
		"Error": func(fr *frame, recv value, args []value) value {
			return recv.(*opaque).p.(*engError).msg
		},
		"Unwrap": func(fr *frame, recv value, args []value) value {
			w := recv.(*opaque).p.(*engError).wrapped
			if w == nil {
				return iface{}
			}
			return w
		},
		"Is": nil,
	})
	delete(engErrType.methods, "Is")
	engTypes[rtErrType] = &engType{methods: map[string]engMethod{
		"Error":        func(fr *frame, recv value, args []value) value { return recv },
		"RuntimeError": func(fr *frame, recv value, args []value) value { return nil },
	}}
}

func mkError(msg value, wrapped value) value {
	return iface{t: engErrType.named, v: &opaque{kind: "error", p: &engError{msg: msg, wrapped: wrapped}}}
}

// sentinel returns the per-path unique sentinel error with the given id.
func (ex *Exec) sentinel(id, msg string) value {
	key := "sentinel:" + id
	if v, ok := ex.extra[key]; ok {
		return v.(value)
	}
	v := iface{t: engErrType.named, v: &opaque{kind: "error", p: &engError{msg: msg, id: id}}}
	ex.extra[key] = v
	return v
}

func isErrorIface(t *types.Interface) bool {
	return t.NumMethods() == 1 && t.Method(0).Name() == "Error"
}

// callMethod invokes method name on the dynamic value of an interface.
func (ex *Exec) callMethod(fr *frame, recv iface, name string, args ...value) (value, bool) {
	if recv.t == nil {
		return nil, false
	}
	if et, ok := engTypes[recv.t]; ok {
		m := et.methods[name]
		if m == nil {
			return nil, false
		}
		return m(fr, recv.v, args), true
	}
	ms := ex.prog.MethodSets.MethodSet(recv.t)
	for i := 0; i < ms.Len(); i++ {
		sel := ms.At(i)
		if sel.Obj().Name() == name {
			f := ex.prog.MethodValue(sel)
			if f == nil {
				return nil, false
			}
			all := append([]value{recv.v}, args...)
			return ex.call(fr, 0, f, all), true
		}
	}
	return nil, false
}

// errorText renders err.Error() as a native string (best effort).
func (ex *Exec) errorText(fr *frame, e value) string {
	i, ok := e.(iface)
	if !ok || i.t == nil {
		return "<nil>"
	}
	r, ok := ex.callMethod(fr, i, "Error")
	if !ok {
		return "<error>"
	}
	return ex.textOf(r)
}

func (ex *Exec) textOf(v value) string {
	switch v := v.(type) {
	case string:
		return v
	case sstring:
		var sb strings.Builder
		for _, b := range v.b {
			if c, ok := b.(uint8); ok {
				sb.WriteByte(c)
			} else {
				sb.WriteByte('?')
			}
		}
		return sb.String()
	}
	return fmt.Sprint(v)
}

// nativeArg converts an interpreter value (as held in an interface) to a
// native Go value suitable for fmt.
func (ex *Exec) nativeArg(fr *frame, v value) interface{} {
	switch v := v.(type) {
	case iface:
		if v.t == nil {
			return nil
		}
		// error / Stringer
		if _, isPtr := v.v.(*value); isPtr || true {
			if r, ok := ex.tryTextMethod(fr, v); ok {
				return r
			}
		}
		return ex.nativeArg(fr, v.v)
	case bool, int, int8, int16, int32, int64, uint, uint8, uint16, uint32, uint64, uintptr, float32, float64, string:
		return v
	case sym:
		return "<sym>"
	case sstring:
		return ex.textOf(v)
	case []value:
		allBytes := len(v) > 0
		for _, x := range v {
			if _, ok := x.(uint8); !ok {
				allBytes = false
			}
		}
		if allBytes {
			bs := make([]byte, len(v))
			for i, x := range v {
				bs[i] = x.(uint8)
			}
			return bs
		}
		out := make([]interface{}, len(v))
		for i, x := range v {
			out[i] = ex.nativeArg(fr, x)
		}
		return out
	case *value:
		if v == nil {
			return nil
		}
		return fmt.Sprintf("&%v", ex.nativeArg(fr, *v))
	case structure:
		out := make([]interface{}, len(v))
		for i, x := range v {
			out[i] = ex.nativeArg(fr, x)
		}
		return out
	case nil:
		return nil
	}
	return fmt.Sprintf("<%T>", v)
}

func (ex *Exec) tryTextMethod(fr *frame, v iface) (res string, ok bool) {
	defer func() {
		if r := recover(); r != nil {
			switch r.(type) {
			case pathEnd:
				panic(r)
			}
			res, ok = "<?>", true
		}
	}()
	if r, found := ex.callMethod(fr, v, "Error"); found {
		return ex.textOf(r), true
	}
	if r, found := ex.callMethod(fr, v, "String"); found {
		return ex.textOf(r), true
	}
	return "", false
}

// sprintf formats with native fmt after converting the arguments.
func (ex *Exec) sprintf(fr *frame, format value, args []value) value {
	f, ok := format.(string)
	if !ok {
		return "<symbolic format>"
	}
	if hasSymArg(args) {
		if r, ok := ex.symSprintf(fr, f, args); ok {
			return r
		}
	}
	// the verb each operand is printed with: numeric verbs print the value itself, also
	// for types with a String or Error method (fmt only calls those for %v %s %q)
	var verbs []byte
	for i := 0; i < len(f); i++ {
		if f[i] != '%' {
			continue
		}
		i++
		for i < len(f) && strings.ContainsRune("+-# 0123456789.[]", rune(f[i])) {
			i++
		}
		if i >= len(f) {
			break
		}
		if f[i] == '%' {
			continue
		}
		if f[i] == '*' {
			verbs = append(verbs, '*')
			i++
			if i >= len(f) {
				break
			}
		}
		verbs = append(verbs, f[i])
	}
	nat := make([]interface{}, len(args))
	for i, a := range args {
		if i < len(verbs) && strings.IndexByte("dxXobcUeEfFgGt", verbs[i]) >= 0 {
			if ia, ok := a.(iface); ok && ia.t != nil {
				if _, isPtr := ia.v.(*value); !isPtr {
					nat[i] = ex.nativeArg(fr, ia.v)
					continue
				}
			}
		}
		nat[i] = ex.nativeArg(fr, a)
	}
	f = strings.ReplaceAll(f, "%w", "%v")
	return fmt.Sprintf(f, nat...)
}
