// Package interp is a dynamic symbolic executor for Go programs in go/ssa form.
//
// It started as a fork of golang.org/x/tools/go/ssa/interp (BSD licence, see
// LICENSE.xtools): the boxed value representation and the instruction
// dispatch are kept; scalars may be SMT terms, branching on a symbolic
// condition forks the path (re-execution with a decision prefix), maps are
// deterministic ordered maps with symbolic-key lookup, Go run-time errors are
// raised explicitly, and calls into bodyless (export-data) packages go
// through a stub table.
package interp

import (
	"fmt"
	"go/token"
	"go/types"
	"os"
	"runtime"
	"runtime/debug"
	"slices"
	"strings"

	"golang.org/x/tools/go/ssa"
)

type continuation int

const (
	kNext continuation = iota
	kReturn
	kJump
)

// targetPanic: the target program panicked (explicitly or by a run-time error).
type targetPanic struct {
	v value
}

// unsupported aborts the path: the engine cannot model what was reached.
type unsupported struct{ why string }

// pathEnd aborts the path for an ordinary reason (assumption failed, budget, stop).
type pathEnd struct {
	kind string // "assume", "budget", "stop"
	why  string
}

type deferred struct {
	fn    value
	args  []value
	instr *ssa.Defer
	tail  *deferred
}

type frame struct {
	ex               *Exec
	caller           *frame
	fn               *ssa.Function
	block, prevBlock *ssa.BasicBlock
	env              map[ssa.Value]value
	locals           []value
	defers           *deferred
	result           value
	panicking        bool
	panic            interface{}
	phitemps         []value
	lenient          bool
	depth            int
	phisDone         bool
}

var rtErrType = func() types.Type {
	tn := types.NewTypeName(token.NoPos, nil, "runtimeError", nil)
	return types.NewNamed(tn, types.Typ[types.String], nil)
}()

func rtPanic(msg string) targetPanic {
	return targetPanic{iface{rtErrType, "runtime error: " + msg}}
}

func (fr *frame) get(key ssa.Value) value {
	switch key := key.(type) {
	case nil:
		return nil
	case *ssa.Function, *ssa.Builtin:
		return key
	case *ssa.Const:
		return constValue(key)
	case *ssa.Global:
		if r, ok := fr.ex.globals[key]; ok {
			return r
		}
		return fr.ex.globalAddr(key)
	}
	if r, ok := fr.env[key]; ok {
		return r
	}
	panic(fmt.Sprintf("get: no value for %T: %v", key, key.Name()))
}

func (fr *frame) runDefer(d *deferred) {
	var ok bool
	defer func() {
		if !ok {
			r := recover()
			switch r.(type) {
			case unsupported, pathEnd:
				panic(r)
			}
			fr.panicking = true
			fr.panic = r
		}
	}()
	fr.ex.call(fr, d.instr.Pos(), d.fn, d.args)
	ok = true
}

func (fr *frame) runDefers() {
	for d := fr.defers; d != nil; d = d.tail {
		fr.runDefer(d)
	}
	fr.defers = nil
	if fr.panicking {
		panic(fr.panic)
	}
}

func (ex *Exec) lookupMethod(typ types.Type, meth *types.Func) *ssa.Function {
	return ex.prog.LookupMethod(typ, meth.Pkg(), meth.Name())
}

func mustDeref(t types.Type) types.Type {
	if p, ok := t.Underlying().(*types.Pointer); ok {
		return p.Elem()
	}
	panic(fmt.Sprintf("mustDeref: %s", t))
}

func nilCheck(p *value) *value {
	if p == nil {
		panic(rtPanic("invalid memory address or nil pointer dereference"))
	}
	return p
}

func visitInstr(fr *frame, instr ssa.Instruction) continuation {
	ex := fr.ex
	switch instr := instr.(type) {
	case *ssa.DebugRef:

	case *ssa.UnOp:
		fr.env[instr] = ex.unop(instr, fr.get(instr.X))

	case *ssa.BinOp:
		fr.env[instr] = ex.binop(instr.Op, instr.X.Type(), fr.get(instr.X), fr.get(instr.Y))

	case *ssa.Call:
		fn, args := prepareCall(fr, &instr.Call)
		if fr.lenient {
			fr.env[instr] = ex.lenientCall(fr, instr, fn, args)
		} else {
			fr.env[instr] = ex.call(fr, instr.Pos(), fn, args)
		}

	case *ssa.ChangeInterface:
		fr.env[instr] = fr.get(instr.X)

	case *ssa.ChangeType:
		fr.env[instr] = fr.get(instr.X)

	case *ssa.Convert:
		fr.env[instr] = ex.conv(instr.Type(), instr.X.Type(), fr.get(instr.X))

	case *ssa.MultiConvert:
		fr.env[instr] = ex.conv(instr.Type(), instr.X.Type(), fr.get(instr.X))

	case *ssa.SliceToArrayPointer:
		fr.env[instr] = sliceToArrayPointer(instr.Type(), instr.X.Type(), fr.get(instr.X))

	case *ssa.MakeInterface:
		fr.env[instr] = iface{t: instr.X.Type(), v: fr.get(instr.X)}

	case *ssa.Extract:
		fr.env[instr] = fr.get(instr.Tuple).(tuple)[instr.Index]

	case *ssa.Slice:
		fr.env[instr] = ex.slice(fr.get(instr.X), fr.get(instr.Low), fr.get(instr.High), fr.get(instr.Max))

	case *ssa.Return:
		switch len(instr.Results) {
		case 0:
		case 1:
			fr.result = fr.get(instr.Results[0])
		default:
			var res []value
			for _, r := range instr.Results {
				res = append(res, fr.get(r))
			}
			fr.result = tuple(res)
		}
		fr.block = nil
		return kReturn

	case *ssa.RunDefers:
		fr.runDefers()

	case *ssa.Panic:
		panic(targetPanic{fr.get(instr.X)})

	case *ssa.Send:
		panic(unsupported{"channel send"})

	case *ssa.Store:
		store(mustDeref(instr.Addr.Type()), nilCheck(fr.get(instr.Addr).(*value)), fr.get(instr.Val))

	case *ssa.If:
		succ := 1
		c := fr.get(instr.Cond)
		switch c := c.(type) {
		case bool:
			if c {
				succ = 0
			}
		case sym:
			if ex.tryMerge(fr, c.t) {
				return kJump
			}
			if ex.decide(c.t) {
				succ = 0
			}
		default:
			panic(unsupported{fmt.Sprintf("if on %T", c)})
		}
		fr.prevBlock, fr.block = fr.block, fr.block.Succs[succ]
		return kJump

	case *ssa.Jump:
		fr.prevBlock, fr.block = fr.block, fr.block.Succs[0]
		return kJump

	case *ssa.Defer:
		fn, args := prepareCall(fr, &instr.Call)
		defers := &fr.defers
		if into := fr.get(instr.DeferStack); into != nil {
			defers = into.(**deferred)
		}
		*defers = &deferred{fn: fn, args: args, instr: instr, tail: *defers}

	case *ssa.Go:
		fn, args := prepareCall(fr, &instr.Call)
		ex.goStmt(fr, instr, fn, args)

	case *ssa.MakeChan:
		fr.env[instr] = &opaque{kind: "chan", p: &chanState{cap: int(ex.asInt64(fr.get(instr.Size)))}}

	case *ssa.Alloc:
		var addr *value
		if instr.Heap {
			addr = new(value)
			fr.env[instr] = addr
		} else {
			addr = fr.env[instr].(*value)
		}
		*addr = zero(mustDeref(instr.Type()))

	case *ssa.MakeSlice:
		c := ex.asInt64(fr.get(instr.Cap))
		l := ex.asInt64(fr.get(instr.Len))
		if l < 0 || c < l {
			panic(rtPanic("makeslice: len out of range"))
		}
		if c > int64(ex.eng.Cfg.MaxAlloc) {
			panic(pathEnd{"budget", fmt.Sprintf("make([]T, %d) exceeds allocation budget at %s", c, ex.prog.Fset.Position(instr.Pos()))})
		}
		sl := make([]value, c)
		tElt := instr.Type().Underlying().(*types.Slice).Elem()
		for i := range sl {
			sl[i] = zero(tElt)
		}
		fr.env[instr] = sl[:l]

	case *ssa.MakeMap:
		fr.env[instr] = newMap(instr.Type().Underlying().(*types.Map).Key())

	case *ssa.Range:
		fr.env[instr] = rangeIter(fr.get(instr.X), instr.X.Type())

	case *ssa.Next:
		fr.env[instr] = fr.get(instr.Iter).(iter).next()

	case *ssa.FieldAddr:
		p := nilCheck(fr.get(instr.X).(*value))
		s, ok := (*p).(structure)
		if !ok {
			if op, isOp := (*p).(*opaque); isOp && strings.HasPrefix(op.kind, "env:") {
				// a field of an environment object (metrics, tracing): another environment value
				cell := envValue(mustDeref(instr.Type()))
				fr.env[instr] = &cell
				break
			}
			panic(unsupported{fmt.Sprintf("field access into %T (%s)", *p, instr.X.Type())})
		}
		fr.env[instr] = &s[instr.Field]

	case *ssa.Field:
		s, ok := fr.get(instr.X).(structure)
		if !ok {
			panic(unsupported{fmt.Sprintf("field access into %T (%s)", fr.get(instr.X), instr.X.Type())})
		}
		fr.env[instr] = s[instr.Field]

	case *ssa.IndexAddr:
		x := fr.get(instr.X)
		switch x := x.(type) {
		case []value:
			i := ex.index(fr.get(instr.Index), len(x))
			fr.env[instr] = &x[i]
		case *value:
			a := (*nilCheck(x)).(array)
			i := ex.index(fr.get(instr.Index), len(a))
			fr.env[instr] = &a[i]
		default:
			panic(fmt.Sprintf("unexpected x type in IndexAddr: %T", x))
		}

	case *ssa.Index:
		x := fr.get(instr.X)
		switch x := x.(type) {
		case array:
			fr.env[instr] = x[ex.index(fr.get(instr.Index), len(x))]
		case string:
			fr.env[instr] = x[ex.index(fr.get(instr.Index), len(x))]
		case sstring:
			fr.env[instr] = x.b[ex.index(fr.get(instr.Index), len(x.b))]
		default:
			panic(fmt.Sprintf("unexpected x type in Index: %T", x))
		}

	case *ssa.Lookup:
		fr.env[instr] = ex.lookup(instr, fr.get(instr.X), fr.get(instr.Index))

	case *ssa.MapUpdate:
		m, ok := fr.get(instr.Map).(*omap)
		if !ok {
			panic(unsupported{fmt.Sprintf("map update on %T", fr.get(instr.Map))})
		}
		if m == nil {
			panic(targetPanic{iface{rtErrType, "assignment to entry in nil map"}})
		}
		m.insert(ex, fr.get(instr.Key), fr.get(instr.Value))

	case *ssa.TypeAssert:
		x, ok := fr.get(instr.X).(iface)
		if !ok {
			panic(unsupported{fmt.Sprintf("type assert on %T", fr.get(instr.X))})
		}
		fr.env[instr] = typeAssert(ex, instr, x)

	case *ssa.MakeClosure:
		var bindings []value
		for _, binding := range instr.Bindings {
			bindings = append(bindings, fr.get(binding))
		}
		fr.env[instr] = &closure{instr.Fn.(*ssa.Function), bindings}

	case *ssa.Phi:
		panic("unreachable: phi")

	case *ssa.Select:
		fr.env[instr] = ex.selectStmt(fr, instr)

	default:
		panic(fmt.Sprintf("unexpected instruction: %T", instr))
	}
	return kNext
}

func prepareCall(fr *frame, call *ssa.CallCommon) (fn value, args []value) {
	v := fr.get(call.Value)
	if call.Method == nil {
		fn = v
	} else {
		recv, ok := v.(iface)
		if !ok {
			panic(unsupported{fmt.Sprintf("method %s invoked on %T", call.Method.Name(), v)})
		}
		if recv.t == nil {
			panic(rtPanic("invalid memory address or nil pointer dereference (method " + call.Method.Name() + " on nil interface)"))
		}
		if recv.t == envObjType.named {
			sig := call.Method.Type().(*types.Signature)
			fn = &builtinFn{name: "env." + call.Method.Name(), f: func(fr *frame, a []value) value { return envResultsCtx(sig, a) }}
			for _, arg := range call.Args {
				args = append(args, fr.get(arg))
			}
			return
		}
		if et, ok := engTypes[recv.t]; ok {
			m := et.methods[call.Method.Name()]
			if m == nil {
				panic(unsupported{fmt.Sprintf("engine type %s has no method %s", recv.t, call.Method.Name())})
			}
			rv := recv.v
			fn = &builtinFn{name: "eng." + call.Method.Name(), f: func(fr *frame, a []value) value { return m(fr, rv, a) }}
			for _, arg := range call.Args {
				args = append(args, fr.get(arg))
			}
			return
		}
		if f := fr.ex.lookupMethod(recv.t, call.Method); f == nil {
			panic(unsupported{fmt.Sprintf("method set for dynamic type %v does not contain %s", recv.t, call.Method)})
		} else {
			fn = f
		}
		args = append(args, recv.v)
	}
	for _, arg := range call.Args {
		args = append(args, fr.get(arg))
	}
	return
}

// builtinFn is an engine-provided callable.
type builtinFn struct {
	name string
	f    func(fr *frame, args []value) value
}

func (ex *Exec) call(caller *frame, callpos token.Pos, fn value, args []value) value {
	switch fn := fn.(type) {
	case *ssa.Function:
		if fn == nil {
			panic(rtPanic("invalid memory address or nil pointer dereference (call of nil func)"))
		}
		return ex.callSSA(caller, callpos, fn, args, nil)
	case *closure:
		return ex.callSSA(caller, callpos, fn.Fn, args, fn.Env)
	case *ssa.Builtin:
		return ex.callBuiltin(caller, callpos, fn, args)
	case *builtinFn:
		return fn.f(caller, args)
	case poison:
		panic(unsupported{"call of poisoned function value: " + fn.why})
	}
	panic(fmt.Sprintf("cannot call %T", fn))
}

// lenientCall runs a call during package initialisation; anything the engine
// cannot do yields a poison value instead of aborting.
func (ex *Exec) lenientCall(fr *frame, instr *ssa.Call, fn value, args []value) (res value) {
	defer func() {
		if r := recover(); r != nil {
			why := fmt.Sprint(r)
			if u, ok := r.(unsupported); ok {
				why = u.why
			}
			res = poisonFor(instr.Type(), why)
		}
	}()
	return ex.call(fr, instr.Pos(), fn, args)
}

func poisonFor(t types.Type, why string) value {
	if tup, ok := t.(*types.Tuple); ok {
		if tup.Len() == 0 {
			return nil
		}
		r := make(tuple, tup.Len())
		for i := range r {
			r[i] = poison{why}
		}
		return r
	}
	return poison{why}
}

func (ex *Exec) callSSA(caller *frame, callpos token.Pos, fn *ssa.Function, args []value, env []value) value {
	depth := 0
	lenient := false
	if caller != nil {
		depth = caller.depth + 1
		lenient = caller.lenient
	}
	if depth > ex.eng.Cfg.MaxDepth {
		panic(pathEnd{"budget", "call depth exceeded in " + fn.String()})
	}
	fr := &frame{ex: ex, caller: caller, fn: fn, depth: depth, lenient: lenient}
	name := fn.String()
	if fn.Parent() == nil {
		if ext := ex.eng.stubFor(fn, name); ext != nil {
			ex.noteStub(name)
			return ext(fr, args)
		}
		if fn.Blocks == nil {
			if fn.Synthetic != "" && strings.Contains(fn.Synthetic, "wrapper") {
				// should not happen: wrappers are built on demand
			}
			panic(unsupported{"no code for function: " + name})
		}
	}
	if fn.TypeParams().Len() > 0 && len(fn.TypeArgs()) == 0 {
		panic(unsupported{"uninstantiated generic " + name})
	}
	ex.noteFunc(fn)

	fr.env = make(map[ssa.Value]value, 16)
	fr.block = fn.Blocks[0]
	fr.locals = make([]value, len(fn.Locals))
	for i, l := range fn.Locals {
		fr.locals[i] = zero(mustDeref(l.Type()))
		fr.env[l] = &fr.locals[i]
	}
	for i, p := range fn.Params {
		fr.env[p] = args[i]
	}
	for i, fv := range fn.FreeVars {
		fr.env[fv] = env[i]
	}
	for fr.block != nil {
		runFrame(fr)
	}
	return fr.result
}

var traceUnsupported = os.Getenv("VERIF_TRACE") != ""

func runFrame(fr *frame) {
	defer func() {
		if fr.block == nil {
			return // normal return
		}
		r := recover()
		switch r := r.(type) {
		case unsupported:
			if traceUnsupported {
				r.why += " | in " + fr.fn.String()
			}
			panic(r)
		case pathEnd:
			panic(r)
		case targetPanic:
			fr.panicking = true
			fr.panic = r
		case runtime.Error:
			// An interpreter-internal failure: never a verdict about the target.
			panic(unsupported{fmt.Sprintf("engine internal error in %s: %v\n%s", fr.fn, r, trimStack(debug.Stack()))})
		default:
			panic(unsupported{fmt.Sprintf("engine internal panic in %s: %v\n%s", fr.fn, r, trimStack(debug.Stack()))})
		}
		fr.runDefers()
		fr.block = fr.fn.Recover
	}()

	ex := fr.ex
	for {
		nonPhis := executePhis(fr)
		for _, instr := range nonPhis {
			ex.steps++
			if ex.steps > ex.eng.Cfg.MaxSteps {
				panic(pathEnd{"budget", fmt.Sprintf("step budget %d exceeded in %s", ex.eng.Cfg.MaxSteps, fr.fn)})
			}
			if ex.eng.Cfg.Trace {
				if v, ok := instr.(ssa.Value); ok {
					fmt.Fprintln(os.Stderr, "\t", fr.fn.Name(), v.Name(), "=", instr)
				} else {
					fmt.Fprintln(os.Stderr, "\t", fr.fn.Name(), instr)
				}
			}
			if visitInstr(fr, instr) == kReturn {
				return
			}
		}
	}
}

func trimStack(b []byte) string {
	s := string(b)
	lines := strings.Split(s, "\n")
	if len(lines) > 24 {
		lines = lines[:24]
	}
	return strings.Join(lines, "\n")
}

func executePhis(fr *frame) []ssa.Instruction {
	firstNonPhi := -1
	for i, instr := range fr.block.Instrs {
		if _, ok := instr.(*ssa.Phi); !ok {
			firstNonPhi = i
			break
		}
	}
	nonPhis := fr.block.Instrs[firstNonPhi:]
	if fr.phisDone {
		fr.phisDone = false
		return nonPhis
	}
	if firstNonPhi > 0 {
		phis := fr.block.Instrs[:firstNonPhi]
		predIndex := slices.Index(fr.block.Preds, fr.prevBlock)
		fr.phitemps = fr.phitemps[:0]
		for _, phi := range phis {
			phi := phi.(*ssa.Phi)
			fr.phitemps = append(fr.phitemps, fr.get(phi.Edges[predIndex]))
		}
		for i, phi := range phis {
			fr.env[phi.(*ssa.Phi)] = fr.phitemps[i]
		}
	}
	return nonPhis
}

// doRecover implements the recover() built-in.
func doRecover(caller *frame) value {
	if caller != nil && !caller.panicking &&
		caller.caller != nil && caller.caller.panicking {
		caller.caller.panicking = false
		p := caller.caller.panic
		caller.caller.panic = nil
		switch p := p.(type) {
		case targetPanic:
			return p.v
		default:
			panic(fmt.Sprintf("unexpected panic type %T in target call to recover()", p))
		}
	}
	return iface{}
}

// chanState is a minimal buffered channel for sequential code.
type chanState struct {
	cap    int
	buf    []value
	closed bool
}

// goStmt runs the goroutine's function to completion right away: one legal schedule of a
// fork-join (go ...; wg.Wait()) — the only use of goroutines inside encoded code
// (Pipeline.executeModules runs the modules of a layer that way). A goroutine that
// communicates over channels still ends in an unsupported channel operation. Other
// interleavings are outside every claim.
func (ex *Exec) goStmt(fr *frame, instr *ssa.Go, fn value, args []value) {
	ex.notes = append(ex.notes, "go statement executed synchronously at "+ex.prog.Fset.Position(instr.Pos()).String())
	ex.call(fr, instr.Pos(), fn, args)
}

func (ex *Exec) selectStmt(fr *frame, instr *ssa.Select) value {
	panic(unsupported{"select statement at " + ex.prog.Fset.Position(instr.Pos()).String()})
}
