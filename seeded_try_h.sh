#!/bin/bash
# usage: seeded_try_h.sh <seed-name> <harness> <roots> <solver> <params>   (development: one harness against a seeded scratch worktree)
name=$1; h=$2; roots=$3; solver=${4:-z3}; params=$5
wt=${SEED_WT:-/tmp/wt-seedtry}
if [ ! -d $wt ]; then git -C /repo worktree add --detach $wt HEAD >/dev/null 2>&1 || exit 2; fi
cd $wt && git checkout -q -- . && git checkout -q --detach $(git -C /repo rev-parse HEAD) || exit 2
git apply /verif/seeded/$name/patch.diff || { echo "$name: patch does not apply"; exit 2; }
cd /verif
VERIF_REPO=$wt timeout 1200 ./bin/vcheck harness $h -roots $roots -solver $solver -fallback z3-new,z3 ${params:+-params $params} -cross 1 2>&1 | grep "paths map\|^VIOLATION\|^UNSUPP\|^BUDGET\|native replay" | cut -c1-260 | sort | uniq -c | sort -rn | head -8
git -C $wt checkout -q -- .
