#!/bin/sh
set -e
cd /verif/engine
export GOFLAGS=-mod=mod GOPROXY=off GOSUMDB=off GOTOOLCHAIN=local
mkdir -p /verif/bin
go build -o /verif/bin/vcheck ./cmd/vcheck
/verif/bin/vcheck selftest
# warm the export-data / build cache for the packages the checks load
cd /repo && go build ./... >/dev/null 2>&1 || true
